//! Language profiles: the 39 registered file-name suffixes, their comment forms, code-line templates and
//! decoy templates, grounded in src/language_parsers/*.rs and their unit tests. Plus the grammar-health
//! probe (triage / generator soundness only — never an oracle for the expected answer).
use tree_sitter::Language;

#[derive(Debug)]
pub struct Lang {
    pub id: &'static str,
    /// line-comment openers (incl. doc forms)
    pub line: &'static [&'static str],
    /// block comment delimiters
    pub block: Option<(&'static str, &'static str)>,
    /// block comments nest (so the opener must not occur in a payload)
    pub nests: bool,
    /// `*`-decorated continuation lines are conventional/legal in block comments
    pub star: bool,
    /// a line comment may follow code on the same line
    pub trailing_line: bool,
    /// standalone code lines; `{n}` is replaced by a unique number
    pub code: &'static [&'static str],
    /// code that may share a line with a block comment (before or after it)
    pub inline_code: &'static [&'static str],
    /// lines holding a decoy tag (`{}`) inside a string literal, markup or code
    pub decoys: &'static [&'static str],
    pub header: &'static str,
    pub footer: &'static str,
    /// Markdown: `[//]: # (…)` definitions and HTML-comment blocks, blank-line separated
    pub markdown: bool,
    /// line comments of this language include the line terminator in the comment node (content start unspecified)
    pub line_comment_eats_newline: &'static [&'static str],
}

const C_CODE: &[&str] = &["int a{n} = {n};", "void f{n}(void);", "typedef int t{n};", "struct s{n} { int x; };"];
const C_INLINE: &[&str] = &["int b{n} = {n};", "char c{n};"];
const C_DECOY: &[&str] = &["const char *d{n} = \"{}\";", "const char *e{n} = \"/* {} */\";", "const char *f{n} = \"// {}\";"];

pub const LANGS: &[Lang] = &[
    Lang {
        id: "bash",
        // (`#!` below the first line - which the header occupies - is an ordinary comment, not a shebang)
        line: &["#", "##", "#!"],
        block: None,
        nests: false,
        star: false,
        trailing_line: true,
        code: &["echo hello{n}", "x{n}=1", "ls -la | wc -l", "f{n}() { echo hi; }"],
        inline_code: &[],
        decoys: &["echo \"{}\"", "y{n}='{}'", "cat <<EOF{n}\n# {}\nEOF{n}"],
        header: "#!/bin/sh\n",
        footer: "",
        markdown: false,
        line_comment_eats_newline: &[],
    },
    Lang { id: "c", line: &["//"], block: Some(("/*", "*/")), nests: false, star: true, trailing_line: true, code: C_CODE, inline_code: C_INLINE, decoys: C_DECOY, header: "", footer: "", markdown: false, line_comment_eats_newline: &[] },
    Lang { id: "cpp", line: &["//"], block: Some(("/*", "*/")), nests: false, star: true, trailing_line: true, code: &["int a{n} = {n};", "void f{n}();", "class K{n} { public: int x; };", "namespace n{n} { int y; }"], inline_code: C_INLINE, decoys: &["const char *d{n} = \"{}\";", "const char *r{n} = R\"({})\";", "const char *q{n} = R\"(5\" // {})\";"], header: "", footer: "", markdown: false, line_comment_eats_newline: &[] },
    Lang {
        id: "c_sharp",
        line: &["//", "///"],
        block: Some(("/*", "*/")),
        nests: false,
        star: true,
        trailing_line: true,
        code: &["class A{n} { }", "enum E{n} { X, Y }", "interface I{n} { }", "struct S{n} { }"],
        inline_code: &["class B{n} { }"],
        decoys: &["class D{n} { string s = \"{}\"; }", "class V{n} { string s = @\"{}\"; }"],
        header: "using System;\n",
        footer: "",
        markdown: false,
        line_comment_eats_newline: &[],
    },
    Lang {
        id: "css",
        line: &[],
        block: Some(("/*", "*/")),
        nests: false,
        star: true,
        trailing_line: false,
        code: &["a{n} { color: red; }", ".b{n} { margin: 0; }", "#c{n} > p { padding: 1px 2px; }"],
        inline_code: &[".i{n} { top: 0; }"],
        decoys: &["q{n}::before { content: \"{}\"; }", "r{n}::after { content: \"/* {} */\"; }"],
        header: "",
        footer: "",
        markdown: false,
        line_comment_eats_newline: &[],
    },
    Lang {
        id: "go",
        line: &["//"],
        block: Some(("/*", "*/")),
        nests: false,
        star: true,
        trailing_line: true,
        code: &["var a{n} = {n}", "func f{n}() {}", "const c{n} = 2", "type T{n} struct{ X int }"],
        inline_code: &["var b{n} = 1"],
        decoys: &["var d{n} = \"{}\"", "var r{n} = `{}`", "var m{n} = `\n// {}\n`", "var c{n} = \"/* {} */\""],
        header: "package main\n",
        footer: "",
        markdown: false,
        line_comment_eats_newline: &[],
    },
    Lang {
        id: "gomod",
        line: &["//"],
        block: None,
        nests: false,
        star: false,
        trailing_line: false,
        code: &["require example.com/dep{n} v1.2.{n}", "exclude example.com/bad{n} v0.0.{n}", "replace example.com/a{n} => ../a{n}"],
        inline_code: &[],
        decoys: &[],
        header: "module example.com/my/module\n\ngo 1.21\n",
        footer: "",
        markdown: false,
        line_comment_eats_newline: &[],
    },
    Lang {
        id: "html",
        line: &[],
        block: Some(("<!--", "-->")),
        nests: false,
        star: false,
        trailing_line: false,
        code: &["<p>text {n}</p>", "<div class=\"c{n}\">x</div>", "<ul><li>i{n}</li></ul>", "<br>"],
        inline_code: &["<span>s{n}</span>"],
        decoys: &["<p title=\"{}\">t</p>", "<script>var s = \"{}\";</script>", "<pre>&lt;block&gt; {n}</pre><block name=\"decoy{n}\"></block>"],
        header: "<!DOCTYPE html>\n<html>\n<body>\n",
        footer: "</body>\n</html>\n",
        markdown: false,
        line_comment_eats_newline: &[],
    },
    Lang {
        id: "java",
        line: &["//"],
        block: Some(("/*", "*/")),
        nests: false,
        star: true,
        trailing_line: true,
        code: &["class A{n} { int x = {n}; }", "interface I{n} { }", "enum E{n} { X, Y }"],
        inline_code: &["class B{n} { }"],
        decoys: &["class D{n} { String s = \"{}\"; }", "class T{n} { String s = \"// {}\"; }", "class U{n} { String s = \"/* {} */\"; }"],
        header: "import java.util.List;\n",
        footer: "",
        markdown: false,
        line_comment_eats_newline: &[],
    },
    Lang {
        id: "javascript",
        line: &["//"],
        block: Some(("/*", "*/")),
        nests: false,
        star: true,
        trailing_line: true,
        code: &["let a{n} = {n};", "function f{n}() { return 1; }", "const o{n} = { k: 1 };", "class K{n} { m() { return 2; } }"],
        inline_code: &["let b{n} = 2;"],
        decoys: &["const d{n} = \"{}\";", "const t{n} = `{}`;", "const q{n} = '{}';", "const m{n} = `\n// {}\n/* {} */\n`;", "const c{n} = \"// {}\";"],
        header: "",
        footer: "",
        markdown: false,
        line_comment_eats_newline: &[],
    },
    Lang {
        id: "kotlin",
        line: &["//"],
        block: Some(("/*", "*/")),
        nests: true,
        star: true,
        trailing_line: true,
        code: &["val a{n} = {n}", "fun f{n}() { }", "class K{n}", "object O{n} { val x = 1 }"],
        inline_code: &["val b{n} = 2"],
        decoys: &["val d{n} = \"{}\"", "val c{n} = \"// {}\""],
        header: "package demo\n",
        footer: "",
        markdown: false,
        line_comment_eats_newline: &[],
    },
    Lang {
        id: "make",
        line: &["#", "##", "#!"],
        block: None,
        nests: false,
        star: false,
        trailing_line: false,
        code: &["CC{n} = gcc", "X{n} := 1", "t{n}:\n\techo {n}", "Y{n} ?= y"],
        inline_code: &[],
        decoys: &["Z{n} = \"{}\""],
        header: "",
        footer: "",
        markdown: false,
        line_comment_eats_newline: &[],
    },
    Lang {
        id: "markdown",
        line: &[],
        block: None,
        nests: false,
        star: false,
        trailing_line: false,
        code: &["Paragraph {n} of text.", "## Heading {n}", "- item {n}\n- item two", "> quote {n}", "1. first {n}"],
        inline_code: &[],
        decoys: &["```\n{}\n```", "Inline `{}` code span {n}.", "    {}", "Text with inline <b>{n}</b> html and {} in a paragraph.", "```html\n<!-- {} -->\n```", "Inline `<!-- {} -->` span.", "```\n[//]: # ({})\n```"],
        header: "# Title\n\n",
        footer: "",
        markdown: true,
        line_comment_eats_newline: &["[//]:"],
    },
    Lang {
        id: "php",
        line: &["//", "#"],
        block: Some(("/*", "*/")),
        nests: false,
        star: true,
        trailing_line: true,
        code: &["$a{n} = {n};", "function f{n}() { return 1; }", "class K{n} { public $x = 1; }", "echo 'x{n}';"],
        inline_code: &["$b{n} = 2;"],
        decoys: &["$d{n} = '{}';", "$e{n} = \"{}\";", "$c{n} = '// {}';", "$h{n} = '# {}';", "?>\n<p>{}</p><!-- {} -->\n<?php"],
        header: "<?php\n",
        footer: "",
        markdown: false,
        line_comment_eats_newline: &[],
    },
    // the same grammar with its open tag in upper case (`<?PHP`, as valid as `<?php`): the file never spells `<?php`
    Lang {
        id: "php_upper",
        line: &["//", "#"],
        block: Some(("/*", "*/")),
        nests: false,
        star: true,
        trailing_line: true,
        code: &["$a{n} = {n};", "function f{n}() { return 1; }", "class K{n} { public $x = 1; }", "echo 'x{n}';"],
        inline_code: &["$b{n} = 2;"],
        decoys: &["$d{n} = '{}';", "$e{n} = \"{}\";", "$c{n} = '// {}';", "$h{n} = '# {}';", "?>\n<p>{}</p><!-- {} -->\n<?PHP"],
        header: "<?PHP\n",
        footer: "",
        markdown: false,
        line_comment_eats_newline: &[],
    },
    Lang {
        id: "python",
        line: &["#", "##", "#!"],
        block: None,
        nests: false,
        star: false,
        trailing_line: true,
        code: &["a{n} = {n}", "def f{n}(): pass", "import os", "class K{n}: pass"],
        inline_code: &[],
        decoys: &["d{n} = \"{}\"", "e{n} = '{}'", "t{n} = \"\"\"{}\"\"\"", "c{n} = \"# {}\"", "m{n} = \"\"\"\n# {}\n\"\"\""],
        header: "",
        footer: "",
        markdown: false,
        line_comment_eats_newline: &[],
    },
    Lang {
        id: "ruby",
        line: &["#", "##", "#!"],
        block: Some(("=begin", "=end")),
        nests: false,
        star: false,
        trailing_line: true,
        code: &["a{n} = {n}", "def f{n}; end", "puts \"x{n}\"", "class K{n}; end"],
        inline_code: &[],
        decoys: &["d{n} = \"{}\"", "e{n} = '{}'", "c{n} = \"# {}\"", "h{n} = <<~EOS\n  # {}\nEOS"],
        header: "",
        footer: "",
        markdown: false,
        line_comment_eats_newline: &[],
    },
    Lang {
        id: "rust",
        line: &["//", "///", "//!"],
        block: Some(("/*", "*/")),
        nests: true,
        star: true,
        trailing_line: true,
        code: &["fn f{n}() {}", "const A{n}: u32 = {n};", "struct S{n};", "use std::fmt as f{n};"],
        inline_code: &["const B{n}: u8 = 1;"],
        decoys: &["const D{n}: &str = \"{}\";", "const R{n}: &str = r#\"{}\"#;", "const C{n}: &str = \"// {}\";", "const M{n}: &str = \"/* {} */\";", "const L{n}: &str = \"line\n// {}\n\";"],
        header: "",
        footer: "",
        markdown: false,
        line_comment_eats_newline: &["///", "//!"],
    },
    Lang {
        id: "sql",
        line: &["--"],
        block: Some(("/*", "*/")),
        nests: false,
        star: true,
        trailing_line: true,
        code: &["SELECT {n};", "CREATE TABLE t{n} (id INT);", "INSERT INTO t{n} (id) VALUES ({n});"],
        inline_code: &["SELECT 2;"],
        decoys: &["SELECT '{}';", "SELECT '-- {}';", "SELECT '/* {} */';"],
        header: "",
        footer: "",
        markdown: false,
        line_comment_eats_newline: &[],
    },
    Lang {
        id: "swift",
        line: &["//"],
        block: Some(("/*", "*/")),
        nests: true,
        star: true,
        trailing_line: true,
        code: &["let a{n} = {n}", "func f{n}() { }", "struct S{n} { }", "class K{n} { var x = 1 }"],
        inline_code: &["let b{n} = 2"],
        decoys: &["let d{n} = \"{}\"", "let c{n} = \"// {}\"", "let m{n} = \"\"\"\n// {}\n\"\"\""],
        header: "import Foundation\n",
        footer: "",
        markdown: false,
        line_comment_eats_newline: &[],
    },
    Lang {
        id: "toml",
        line: &["#", "##", "#!"],
        block: None,
        nests: false,
        star: false,
        trailing_line: true,
        code: &["a{n} = {n}", "b{n} = \"x\"", "c{n} = [1, 2]", "d{n} = true"],
        inline_code: &[],
        decoys: &["s{n} = \"{}\"", "l{n} = '{}'", "c{n} = \"# {}\"", "m{n} = \"\"\"\n# {}\n\"\"\""],
        header: "",
        footer: "",
        markdown: false,
        line_comment_eats_newline: &[],
    },
    Lang {
        id: "typescript",
        line: &["//"],
        block: Some(("/*", "*/")),
        nests: false,
        star: true,
        trailing_line: true,
        code: &["let a{n}: number = {n};", "function f{n}(): void { }", "interface I{n} { x: number }", "declare const c{n}: string;", "type T{n} = { k: string };"],
        inline_code: &["let b{n} = 2;"],
        decoys: &["const d{n}: string = \"{}\";", "const t{n} = `{}`;", "const c{n} = \"// {}\";", "const m{n} = `\n/* {} */\n`;"],
        header: "",
        footer: "",
        markdown: false,
        line_comment_eats_newline: &[],
    },
    Lang {
        id: "tsx",
        line: &["//"],
        block: Some(("/*", "*/")),
        nests: false,
        star: true,
        trailing_line: true,
        code: &["let a{n}: number = {n};", "function f{n}(): void { }", "const e{n} = <div className=\"x\">t</div>;", "interface I{n} { x: number }"],
        inline_code: &["let b{n} = 2;"],
        decoys: &["const d{n}: string = \"{}\";", "const j{n} = <p title=\"{}\">x</p>;"],
        header: "",
        footer: "",
        markdown: false,
        line_comment_eats_newline: &[],
    },
    Lang {
        id: "xml",
        line: &[],
        block: Some(("<!--", "-->")),
        nests: false,
        star: false,
        trailing_line: false,
        code: &["<item a=\"{n}\">text</item>", "<empty{n}/>", "<group><child>c{n}</child></group>"],
        inline_code: &["<i{n}>v</i{n}>"],
        decoys: &["<block name=\"decoy{n}\">x</block><![CDATA[ {} ]]>", "<t{n}><![CDATA[{}]]></t{n}>", "<u{n}><![CDATA[<!-- {} -->]]></u{n}>"],
        header: "<?xml version=\"1.0\"?>\n<root>\n",
        footer: "</root>\n",
        markdown: false,
        line_comment_eats_newline: &[],
    },
    Lang {
        id: "yaml",
        line: &["#", "##", "#!"],
        block: None,
        nests: false,
        star: false,
        trailing_line: true,
        code: &["k{n}: v{n}", "l{n}:\n  - a\n  - b", "m{n}:\n  x: 1"],
        inline_code: &[],
        decoys: &["s{n}: \"{}\"", "q{n}: '{}'", "c{n}: \"# {}\"", "b{n}: |\n  # {}\n  text\nz{n}: 1"],
        header: "",
        footer: "",
        markdown: false,
        line_comment_eats_newline: &[],
    },
];

/// (registered suffix, language id). 39 entries, as in src/language_parsers/mod.rs.
pub const SUFFIXES: &[(&str, &str)] = &[
    ("Makefile", "make"),
    ("bash", "bash"),
    ("c", "c"),
    ("cc", "cpp"),
    ("cpp", "cpp"),
    ("cs", "c_sharp"),
    ("css", "css"),
    ("d.ts", "typescript"),
    ("go", "go"),
    ("go.mod", "gomod"),
    ("go.sum", "gomod"),
    ("go.work", "gomod"),
    ("h", "cpp"),
    ("htm", "html"),
    ("html", "html"),
    ("java", "java"),
    ("js", "javascript"),
    ("jsx", "javascript"),
    ("kt", "kotlin"),
    ("kts", "kotlin"),
    ("makefile", "make"),
    ("markdown", "markdown"),
    ("md", "markdown"),
    ("mk", "make"),
    ("php", "php"),
    ("phtml", "php_upper"),
    ("py", "python"),
    ("pyi", "python"),
    ("rb", "ruby"),
    ("rs", "rust"),
    ("sh", "bash"),
    ("sql", "sql"),
    ("swift", "swift"),
    ("toml", "toml"),
    ("ts", "typescript"),
    ("tsx", "tsx"),
    ("xml", "xml"),
    ("yaml", "yaml"),
    ("yml", "yaml"),
];

pub const WHOLE_NAME_SUFFIXES: &[&str] = &["Makefile", "makefile", "go.mod", "go.sum", "go.work"];

pub fn lang(id: &str) -> &'static Lang {
    LANGS.iter().find(|l| l.id == id).unwrap_or_else(|| panic!("no language {id}"))
}

pub fn lang_of_suffix(suffix: &str) -> &'static Lang {
    lang(SUFFIXES.iter().find(|(s, _)| *s == suffix).unwrap_or_else(|| panic!("no suffix {suffix}")).1)
}

/// The plain file name used for a suffix: `<stem>.<suffix>`, or the bare name for whole-name suffixes.
pub fn file_name(stem: &str, suffix: &str) -> String {
    if WHOLE_NAME_SUFFIXES.contains(&suffix) { suffix.to_string() } else { format!("{stem}.{suffix}") }
}

pub fn ts_language(id: &str) -> Option<Language> {
    Some(match id {
        "bash" => tree_sitter_bash::LANGUAGE.into(),
        "c" => tree_sitter_c::LANGUAGE.into(),
        "c_sharp" => tree_sitter_c_sharp::LANGUAGE.into(),
        "cpp" => tree_sitter_cpp::LANGUAGE.into(),
        "css" => tree_sitter_css::LANGUAGE.into(),
        "go" => tree_sitter_go::LANGUAGE.into(),
        "html" => tree_sitter_html::LANGUAGE.into(),
        "java" => tree_sitter_java::LANGUAGE.into(),
        "javascript" => tree_sitter_javascript::LANGUAGE.into(),
        "kotlin" => tree_sitter_kotlin_ng::LANGUAGE.into(),
        "make" => tree_sitter_make::LANGUAGE.into(),
        "markdown" => tree_sitter_md::LANGUAGE.into(),
        "php" | "php_upper" => tree_sitter_php::LANGUAGE_PHP.into(),
        "python" => tree_sitter_python::LANGUAGE.into(),
        "ruby" => tree_sitter_ruby::LANGUAGE.into(),
        "rust" => tree_sitter_rust::LANGUAGE.into(),
        "sql" => tree_sitter_sequel::LANGUAGE.into(),
        "swift" => tree_sitter_swift::LANGUAGE.into(),
        "toml" => tree_sitter_toml_ng::LANGUAGE.into(),
        "typescript" => tree_sitter_typescript::LANGUAGE_TYPESCRIPT.into(),
        "tsx" => tree_sitter_typescript::LANGUAGE_TSX.into(),
        "xml" => tree_sitter_xml::LANGUAGE_XML.into(),
        "yaml" => tree_sitter_yaml::LANGUAGE.into(),
        // go.mod / go.sum / go.work are handed to the Go grammar by blockwatch; they are not Go source,
        // so the health probe does not apply to them.
        _ => return None,
    })
}

thread_local! {
    static PARSERS: std::cell::RefCell<std::collections::HashMap<&'static str, tree_sitter::Parser>> = std::cell::RefCell::new(Default::default());
}

/// Grammar-health probe: does the language's own grammar accept `source` without ERROR/MISSING nodes?
/// Used only to keep generators sound (valid source) and to triage failures; None = not applicable.
pub fn healthy(id: &'static str, source: &str) -> Option<bool> {
    let language = ts_language(id)?;
    PARSERS.with(|p| {
        let mut p = p.borrow_mut();
        let parser = p.entry(id).or_insert_with(|| {
            let mut ps = tree_sitter::Parser::new();
            ps.set_language(&language).expect("set language");
            ps
        });
        let tree = parser.parse(source, None)?;
        Some(!tree.root_node().has_error())
    })
}

/// S-expression of the parse tree (diagnostics for selfcheck).
/// Code that puts a block comment inside the interpolated part of a string literal: (text before the comment,
/// text after it). The comment is a real comment there, although its ancestors are string nodes.
pub fn interp_wrapper(id: &str) -> Option<(&'static str, &'static str)> {
    match id {
        "javascript" | "typescript" | "tsx" => Some(("const s{n} = `v ${ 1", "} w`;")),
        "c_sharp" => Some(("class Q{n} { string s = $\"v { 1", "} w\"; }")),
        "swift" => Some(("let s{n} = \"v \\( 1", ") w\"")),
        "kotlin" => Some(("val s{n} = \"v ${ 1", "} w\"")),
        _ => None,
    }
}

pub fn sexp(id: &'static str, source: &str) -> String {
    let Some(language) = ts_language(id) else { return "(n/a)".into() };
    let mut ps = tree_sitter::Parser::new();
    ps.set_language(&language).unwrap();
    ps.parse(source, None).map(|t| t.root_node().to_sexp()).unwrap_or_default()
}
