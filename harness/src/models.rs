//! Reference models of the four line rules, written from the property statements (C06–C09), independent
//! of the implementation: no regex engine, no shared code.
use serde::{Deserialize, Serialize};

#[derive(Clone, Copy, Debug, PartialEq, Eq, Serialize, Deserialize)]
pub enum Dir {
    Asc,
    Desc,
}

/// "ascending when the value is empty or `asc`, descending for `desc`, any letter case"
pub fn dir_of(value: &str) -> Option<Dir> {
    if value.is_empty() || value.eq_ignore_ascii_case("asc") {
        Some(Dir::Asc)
    } else if value.eq_ignore_ascii_case("desc") {
        Some(Dir::Desc)
    } else {
        None
    }
}

/// A key inside a line: byte range [start, end) of the key text.
pub type Span = (usize, usize);

/// Hand-written equivalents of a fixed family of key-extraction regexes.
#[derive(Clone, Copy, Debug)]
pub struct KeyPat {
    pub re: &'static str,
    pub extract: fn(&str) -> Option<Span>,
    pub has_value_group: bool,
}

fn digits_from(b: &[u8], i: usize) -> usize {
    let mut j = i;
    while j < b.len() && b[j].is_ascii_digit() {
        j += 1;
    }
    j
}

/// `id:(?P<value>[0-9]+)` — value group: digits after the leftmost "id:" that is followed by a digit.
fn ex_id_group(l: &str) -> Option<Span> {
    let b = l.as_bytes();
    let mut i = 0;
    while i + 3 <= b.len() {
        if &b[i..i + 3] == b"id:" {
            let j = digits_from(b, i + 3);
            if j > i + 3 {
                return Some((i + 3, j));
            }
        }
        i += 1;
    }
    None
}

/// `id:[0-9]+` — whole match.
fn ex_id_whole(l: &str) -> Option<Span> {
    ex_id_group(l).map(|(s, e)| (s - 3, e))
}

/// `^k(?P<value>[a-z]+)` — lowercase run after a leading k.
fn ex_k_group(l: &str) -> Option<Span> {
    let b = l.as_bytes();
    if b.first() != Some(&b'k') {
        return None;
    }
    let mut j = 1;
    while j < b.len() && b[j].is_ascii_lowercase() {
        j += 1;
    }
    if j > 1 { Some((1, j)) } else { None }
}

/// `[0-9]+$` — the maximal trailing digit run (whole match).
fn ex_trailing_digits(l: &str) -> Option<Span> {
    let b = l.as_bytes();
    let mut i = b.len();
    while i > 0 && b[i - 1].is_ascii_digit() {
        i -= 1;
    }
    if i < b.len() { Some((i, b.len())) } else { None }
}

/// `=\s*(?P<value>-?[0-9]+)` — signed integer after the leftmost `=` (+ optional blanks) that is followed by one.
fn ex_eq_int(l: &str) -> Option<Span> {
    let b = l.as_bytes();
    for i in 0..b.len() {
        if b[i] == b'=' {
            let mut j = i + 1;
            // \s over the characters the generators use (space, tab)
            while j < b.len() && (b[j] == b' ' || b[j] == b'\t') {
                j += 1;
            }
            let s = j;
            if j < b.len() && b[j] == b'-' {
                j += 1;
            }
            let e = digits_from(b, j);
            if e > j {
                return Some((s, e));
            }
        }
    }
    None
}

/// `^k(?P<value>[a-z]*)` — lowercase run after a leading k; the key may be EMPTY.
fn ex_k_group_star(l: &str) -> Option<Span> {
    let b = l.as_bytes();
    if b.first() != Some(&b'k') {
        return None;
    }
    let mut j = 1;
    while j < b.len() && b[j].is_ascii_lowercase() {
        j += 1;
    }
    Some((1, j))
}

/// `^[a-z]*` — leading lowercase run (whole match); matches every line, possibly with an EMPTY key.
fn ex_lower_prefix(l: &str) -> Option<Span> {
    let b = l.as_bytes();
    let mut j = 0;
    while j < b.len() && b[j].is_ascii_lowercase() {
        j += 1;
    }
    Some((0, j))
}

/// `^p:(?P<value>[a-z]+)$|^[a-z]+$` — the `value` group only takes part in the first branch: a line matching
/// through the second branch is keyed by its whole match.
fn ex_optional_group(l: &str) -> Option<Span> {
    let lower = |s: &str| !s.is_empty() && s.bytes().all(|c| c.is_ascii_lowercase());
    if let Some(rest) = l.strip_prefix("p:")
        && lower(rest)
    {
        return Some((2, l.len()));
    }
    if lower(l) { Some((0, l.len())) } else { None }
}

/// `(k|j) (?P<value>[0-9]+)` — an ordinary (unnamed) capturing group in front of the `value` group: the key is
/// still the `value` group. Leftmost match: the first `k` or `j` followed by a blank and a digit.
fn ex_kj_group(l: &str) -> Option<Span> {
    let b = l.as_bytes();
    for i in 0..b.len() {
        if (b[i] == b'k' || b[i] == b'j') && b.get(i + 1) == Some(&b' ') && b.get(i + 2).is_some_and(u8::is_ascii_digit) {
            let s = i + 2;
            let mut e = s;
            while e < b.len() && b[e].is_ascii_digit() {
                e += 1;
            }
            return Some((s, e));
        }
    }
    None
}

pub const KEY_PATS: &[KeyPat] = &[
    KeyPat { re: "id:(?P<value>[0-9]+)", extract: ex_id_group, has_value_group: true },
    KeyPat { re: "id:[0-9]+", extract: ex_id_whole, has_value_group: false },
    KeyPat { re: "^k(?P<value>[a-z]+)", extract: ex_k_group, has_value_group: true },
    KeyPat { re: "[0-9]+$", extract: ex_trailing_digits, has_value_group: false },
    KeyPat { re: r"=\s*(?P<value>-?[0-9]+)", extract: ex_eq_int, has_value_group: true },
    KeyPat { re: "^k(?P<value>[a-z]*)", extract: ex_k_group_star, has_value_group: true },
    KeyPat { re: "^[a-z]*", extract: ex_lower_prefix, has_value_group: false },
    // the same `value` group in the regex crate's other spelling of a named group
    KeyPat { re: "id:(?<value>[0-9]+)", extract: ex_id_group, has_value_group: true },
    KeyPat { re: "^k(?<value>[a-z]*)", extract: ex_k_group_star, has_value_group: true },
    KeyPat { re: "^p:(?P<value>[a-z]+)$|^[a-z]+$", extract: ex_optional_group, has_value_group: true },
    KeyPat { re: "(k|j) (?P<value>[0-9]+)", extract: ex_kj_group, has_value_group: true },
];

pub fn key_pat(re: &str) -> Option<&'static KeyPat> {
    KEY_PATS.iter().find(|p| p.re == re)
}

/// "trimmed non-blank line": span of the line with surrounding whitespace removed, None when blank.
pub fn trimmed_span(l: &str) -> Option<Span> {
    let t = l.trim();
    if t.is_empty() {
        None
    } else {
        let s = l.len() - l.trim_start().len();
        Some((s, s + t.len()))
    }
}

fn key_span(l: &str, pat: Option<&KeyPat>) -> Option<Span> {
    match pat {
        None => trimmed_span(l),
        Some(p) => (p.extract)(l),
    }
}

/// Plain finite decimals only (the generators' numeric domain): optional '-', digits, optional fraction.
pub fn parse_plain_decimal(s: &str) -> Option<f64> {
    let b = s.as_bytes();
    let mut i = 0;
    if i < b.len() && b[i] == b'-' {
        i += 1;
    }
    let d0 = i;
    while i < b.len() && b[i].is_ascii_digit() {
        i += 1;
    }
    if i == d0 {
        return None;
    }
    if i < b.len() && b[i] == b'.' {
        i += 1;
        let f0 = i;
        while i < b.len() && b[i].is_ascii_digit() {
            i += 1;
        }
        if i == f0 {
            return None;
        }
    }
    if i != b.len() {
        return None;
    }
    s.parse::<f64>().ok()
}

#[derive(Debug, Clone, PartialEq)]
pub enum KsOutcome {
    Sorted,
    /// (content line index, key span) of the first strictly out-of-order key
    OutOfOrder(usize, Span),
    /// numeric format with a key that is not a number and that is reached before an out-of-order pair (the first
    /// key of a block counts even when it is the only one)
    NonNumeric,
}

/// C06: keys compare by code point (or as numbers); violation iff some key is strictly out of order
/// relative to the previous key; the first such key is designated.
pub fn keep_sorted(lines: &[&str], dir: Dir, pat: Option<&KeyPat>, numeric: bool) -> KsOutcome {
    let mut prev: Option<&str> = None;
    for (i, l) in lines.iter().enumerate() {
        let Some((s, e)) = key_span(l, pat) else { continue };
        let key = &l[s..e];
        if let Some(p) = prev {
            let ord = if numeric {
                let (Some(a), Some(b)) = (parse_plain_decimal(p), parse_plain_decimal(key)) else {
                    return KsOutcome::NonNumeric;
                };
                a.partial_cmp(&b).unwrap()
            } else {
                p.chars().cmp(key.chars())
            };
            let bad = match dir {
                Dir::Asc => ord == std::cmp::Ordering::Greater,
                Dir::Desc => ord == std::cmp::Ordering::Less,
            };
            if bad {
                return KsOutcome::OutOfOrder(i, (s, e));
            }
        } else if numeric && parse_plain_decimal(key).is_none() {
            return KsOutcome::NonNumeric;
        }
        prev = Some(key);
    }
    KsOutcome::Sorted
}

/// C07: the first line whose key has already occurred.
pub fn keep_unique(lines: &[&str], pat: Option<&KeyPat>) -> Option<(usize, Span)> {
    let mut seen: Vec<&str> = Vec::new();
    for (i, l) in lines.iter().enumerate() {
        let Some((s, e)) = key_span(l, pat) else { continue };
        let key = &l[s..e];
        if seen.iter().any(|k| *k == key) {
            return Some((i, (s, e)));
        }
        seen.push(key);
    }
    None
}

/// Hand-written predicates for the line-pattern family ("has a match", applied to the trimmed line).
#[derive(Clone, Copy, Debug)]
pub struct LinePat {
    pub re: &'static str,
    pub matches: fn(&str) -> bool,
}

pub const LINE_PATS: &[LinePat] = &[
    LinePat { re: "^[a-z]+$", matches: |t| !t.is_empty() && t.bytes().all(|c| c.is_ascii_lowercase()) },
    LinePat { re: "[0-9]", matches: |t| t.bytes().any(|c| c.is_ascii_digit()) },
    LinePat { re: "^x", matches: |t| t.starts_with('x') },
    LinePat { re: "y$", matches: |t| t.ends_with('y') },
    LinePat {
        re: r"^\S+ \S+$",
        matches: |t| {
            let parts: Vec<&str> = t.split(' ').collect();
            parts.len() == 2 && parts.iter().all(|p| !p.is_empty() && !p.chars().any(char::is_whitespace))
        },
    },
    LinePat { re: "é", matches: |t| t.contains('é') },
    LinePat { re: "^(TODO|FIXME): ", matches: |t| t.starts_with("TODO: ") || t.starts_with("FIXME: ") },
    // patterns that can match the empty string: "has a match" is then true of every line
    LinePat { re: "[0-9]*", matches: |_| true },
    LinePat { re: "^(TODO: )?", matches: |_| true },
    LinePat { re: "x*$", matches: |_| true },
    LinePat { re: "", matches: |_| true },
    // significant blanks at the pattern's edges (the attribute value is the pattern, verbatim)
    LinePat { re: "^- ", matches: |t| t.starts_with("- ") },
    LinePat { re: " = ", matches: |t| t.contains(" = ") },
    // `.` crosses everything but a line feed — a bare carriage return in the middle of a line included
    LinePat { re: "^a.b$", matches: |t| { let c: Vec<char> = t.chars().collect(); c.len() == 3 && c[0] == 'a' && c[2] == 'b' && c[1] != '\n' } },
    // zero-width assertion only: a word boundary exists iff the line has a word character
    LinePat { re: r"\b", matches: |t| t.chars().any(|c| c.is_alphanumeric() || c == '_') },
    // anchored at both ends AND able to match the empty string: accepting "" says nothing about other lines
    LinePat { re: "^[a-z]*$", matches: |t| t.bytes().all(|c| c.is_ascii_lowercase()) },
    LinePat { re: "^(x.*)?$", matches: |t| t.is_empty() || t.starts_with('x') },
    // inline flags and Unicode classes (predicates exact for the characters the alphabets hold)
    LinePat { re: "(?i)^abc$", matches: |t| t.eq_ignore_ascii_case("abc") },
    LinePat { re: r"^\p{Lu}", matches: |t| t.chars().next().is_some_and(char::is_uppercase) },
    // counted repetition as the pattern's ONLY regex construct (no anchor, class, escape or group anywhere)
    LinePat { re: "x{1}y", matches: |t| t.contains("xy") },
    LinePat { re: "a{2}", matches: |t| t.contains("aa") },
    LinePat { re: r"(?x) ^ x \d $", matches: |t| { let c: Vec<char> = t.chars().collect(); c.len() == 2 && c[0] == 'x' && c[1].is_ascii_digit() } },
];

pub fn line_pat(re: &str) -> Option<&'static LinePat> {
    LINE_PATS.iter().find(|p| p.re == re)
}

/// C08: first non-blank line whose trimmed text has no match.
pub fn line_pattern(lines: &[&str], pat: &LinePat) -> Option<(usize, Span)> {
    for (i, l) in lines.iter().enumerate() {
        let Some((s, e)) = trimmed_span(l) else { continue };
        if !(pat.matches)(&l[s..e]) {
            return Some((i, (s, e)));
        }
    }
    None
}

#[derive(Clone, Copy, Debug, PartialEq, Eq, Serialize, Deserialize)]
pub enum Op {
    Lt,
    Le,
    Eq,
    Ge,
    Gt,
}

impl Op {
    pub const ALL: [Op; 5] = [Op::Lt, Op::Le, Op::Eq, Op::Ge, Op::Gt];
    pub fn text(self) -> &'static str {
        match self {
            Op::Lt => "<",
            Op::Le => "<=",
            Op::Eq => "==",
            Op::Ge => ">=",
            Op::Gt => ">",
        }
    }
    pub fn holds(self, actual: u64, n: u64) -> bool {
        match self {
            Op::Lt => actual < n,
            Op::Le => actual <= n,
            Op::Eq => actual == n,
            Op::Ge => actual >= n,
            Op::Gt => actual > n,
        }
    }
}

/// Reference grammar of `line-count="OP N"` from the statement: OP one of <, <=, ==, >=, >, optional spaces,
/// N a non-negative decimal integer that fits the platform word.
pub fn parse_line_count(v: &str) -> Option<(Op, u64)> {
    let t = v.trim_matches(|c: char| c == ' ' || c == '\t');
    let (op, rest) = if let Some(r) = t.strip_prefix("<=") {
        (Op::Le, r)
    } else if let Some(r) = t.strip_prefix(">=") {
        (Op::Ge, r)
    } else if let Some(r) = t.strip_prefix("==") {
        (Op::Eq, r)
    } else if let Some(r) = t.strip_prefix('<') {
        (Op::Lt, r)
    } else if let Some(r) = t.strip_prefix('>') {
        (Op::Gt, r)
    } else {
        return None;
    };
    let num = rest.trim_matches(|c: char| c == ' ' || c == '\t');
    if num.is_empty() || !num.bytes().all(|c| c.is_ascii_digit()) {
        return None;
    }
    num.parse::<u64>().ok().map(|n| (op, n))
}

/// C09: number of non-blank lines of the content text.
pub fn count_nonblank(content: &str) -> u64 {
    content.split('\n').filter(|l| !l.trim().is_empty()).count() as u64
}
