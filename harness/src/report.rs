//! Structural parsing of blockwatch's two outputs: the diagnostics object on stderr and the listing on stdout.
use serde::{Deserialize, Serialize};
use serde_json::Value;
use std::collections::BTreeMap;

#[derive(Debug, Clone, PartialEq, Eq, PartialOrd, Ord, Serialize, Deserialize)]
pub struct Diag {
    pub file: String,
    pub code: String,
    pub severity: u64,
    pub sl: u64,
    pub sc: u64,
    pub el: u64,
    pub ec: u64,
    pub message: String,
    pub data: String, // canonical JSON text of `data` ("null" when absent)
}

impl Diag {
    pub fn data_json(&self) -> Value {
        serde_json::from_str(&self.data).unwrap_or(Value::Null)
    }
}

/// Parses the whole of stderr as exactly one JSON object {file: [diagnostic]}.
/// Empty (or whitespace-only) stderr is the empty report.
pub fn parse_diags(stderr: &str) -> Result<Vec<Diag>, String> {
    if stderr.trim().is_empty() {
        return Ok(vec![]);
    }
    let mut de = serde_json::Deserializer::from_str(stderr).into_iter::<Value>();
    let first = match de.next() {
        Some(Ok(v)) => v,
        Some(Err(e)) => return Err(format!("stderr is not JSON: {e}")),
        None => return Ok(vec![]),
    };
    let rest = &stderr[de.byte_offset()..];
    if !rest.trim().is_empty() {
        return Err(format!("stderr has trailing text after the JSON object: {:?}", crate::cli::trunc(rest, 200)));
    }
    let obj = first.as_object().ok_or("stderr JSON is not an object")?;
    let mut out = Vec::new();
    for (file, list) in obj {
        let arr = list.as_array().ok_or_else(|| format!("value for {file} is not a list"))?;
        for d in arr {
            let g = |p: &str| -> Result<u64, String> {
                d.pointer(p).and_then(Value::as_u64).ok_or_else(|| format!("diagnostic lacks integer {p}: {d}"))
            };
            out.push(Diag {
                file: file.clone(),
                code: d.get("code").and_then(Value::as_str).ok_or_else(|| format!("diagnostic lacks code: {d}"))?.to_string(),
                severity: g("/severity")?,
                sl: g("/range/start/line")?,
                sc: g("/range/start/character")?,
                el: g("/range/end/line")?,
                ec: g("/range/end/character")?,
                message: d.get("message").and_then(Value::as_str).ok_or_else(|| format!("diagnostic lacks message: {d}"))?.to_string(),
                data: canonical(d.get("data").unwrap_or(&Value::Null)),
            });
        }
    }
    out.sort();
    Ok(out)
}

pub fn canonical(v: &Value) -> String {
    fn go(v: &Value, out: &mut String) {
        match v {
            Value::Object(m) => {
                let mut keys: Vec<&String> = m.keys().collect();
                keys.sort();
                out.push('{');
                for (i, k) in keys.iter().enumerate() {
                    if i > 0 {
                        out.push(',');
                    }
                    out.push_str(&serde_json::to_string(k).unwrap());
                    out.push(':');
                    go(&m[*k], out);
                }
                out.push('}');
            }
            Value::Array(a) => {
                out.push('[');
                for (i, x) in a.iter().enumerate() {
                    if i > 0 {
                        out.push(',');
                    }
                    go(x, out);
                }
                out.push(']');
            }
            other => out.push_str(&serde_json::to_string(other).unwrap()),
        }
    }
    let mut s = String::new();
    go(v, &mut s);
    s
}

#[derive(Debug, Clone, PartialEq, Eq, PartialOrd, Ord, Serialize, Deserialize)]
pub struct Listed {
    pub file: String,
    pub line: u64,
    pub column: u64,
    pub name: String,
    pub modified: bool,
    pub attrs: BTreeMap<String, String>,
}

/// Parses stdout of `blockwatch list` as exactly one JSON object {file: [block]}.
/// Returns blocks in the order printed per file (files sorted by name).
pub fn parse_listing(stdout: &str) -> Result<Vec<Listed>, String> {
    let mut de = serde_json::Deserializer::from_str(stdout).into_iter::<Value>();
    let first = match de.next() {
        Some(Ok(v)) => v,
        Some(Err(e)) => return Err(format!("stdout is not JSON: {e}")),
        None => return Err("stdout is empty (expected one JSON object)".into()),
    };
    let rest = &stdout[de.byte_offset()..];
    if !rest.trim().is_empty() {
        return Err("stdout has trailing text after the JSON object".into());
    }
    let obj = first.as_object().ok_or("listing JSON is not an object")?;
    let mut out = Vec::new();
    for (file, list) in obj {
        let arr = list.as_array().ok_or_else(|| format!("value for {file} is not a list"))?;
        for b in arr {
            let mut attrs = BTreeMap::new();
            for (k, v) in b.get("attributes").and_then(Value::as_object).ok_or("block lacks attributes")? {
                attrs.insert(k.clone(), v.as_str().ok_or("attribute value is not a string")?.to_string());
            }
            out.push(Listed {
                file: file.clone(),
                line: b.get("line").and_then(Value::as_u64).ok_or("block lacks line")?,
                column: b.get("column").and_then(Value::as_u64).ok_or("block lacks column")?,
                name: b.get("name").and_then(Value::as_str).ok_or("block lacks name")?.to_string(),
                modified: b.get("is_content_modified").and_then(Value::as_bool).ok_or("block lacks is_content_modified")?,
                attrs,
            });
        }
    }
    Ok(out)
}
