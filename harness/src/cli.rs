//! Real-process execution: sandboxes on /dev/shm, the blockwatch binary built from /repo, real git.
use std::io::{Read, Write};
use std::path::{Path, PathBuf};
use std::process::{Command, Stdio};
use std::sync::atomic::{AtomicU64, Ordering};
use std::time::{Duration, Instant};

static SANDBOX_SEQ: AtomicU64 = AtomicU64::new(0);

pub fn verif_dir() -> PathBuf {
    if let Ok(v) = std::env::var("BWV_VERIF_DIR") {
        return PathBuf::from(v);
    }
    PathBuf::from(env!("CARGO_MANIFEST_DIR")).parent().unwrap().to_path_buf()
}

pub fn bw_bin() -> PathBuf {
    if let Ok(v) = std::env::var("BWV_BIN") {
        return PathBuf::from(v);
    }
    verif_dir().join("target/repo/debug/blockwatch")
}

fn scratch_base() -> PathBuf {
    if let Ok(v) = std::env::var("BWV_SCRATCH") {
        return PathBuf::from(v);
    }
    let shm = Path::new("/dev/shm");
    if shm.is_dir() {
        shm.join("bwv")
    } else {
        std::env::temp_dir().join("bwv")
    }
}

/// Removes leftovers of earlier (killed) runs of this process id namespace.
pub fn clean_scratch_for_pid() {
    let base = scratch_base().join(format!("p{}", std::process::id()));
    let _ = std::fs::remove_dir_all(base);
}

#[derive(Debug, Clone, Default)]
pub struct Out {
    pub code: Option<i32>,
    pub signal: Option<i32>,
    pub stdout: String,
    pub stderr: String,
    pub timed_out: bool,
    pub wall_ms: u64,
}

impl Out {
    pub fn panicked(&self) -> bool {
        self.stderr.contains("panicked at")
            || self.code == Some(101)
            || self.code == Some(134)
            || self.signal.is_some()
    }
    pub fn brief(&self) -> String {
        format!(
            "code={:?} signal={:?} timed_out={} stdout[{}]={:?} stderr[{}]={:?}",
            self.code,
            self.signal,
            self.timed_out,
            self.stdout.len(),
            trunc(&self.stdout, 600),
            self.stderr.len(),
            trunc(&self.stderr, 600)
        )
    }
}

pub fn trunc(s: &str, n: usize) -> String {
    if s.len() <= n {
        s.to_string()
    } else {
        let mut e = n;
        while !s.is_char_boundary(e) {
            e -= 1;
        }
        format!("{}…[{} bytes]", &s[..e], s.len())
    }
}

pub struct Sandbox {
    pub base: PathBuf,
    pub root: PathBuf,
    pub home: PathBuf,
    keep: bool,
}

#[derive(Debug, Clone, Default)]
pub struct BwRun {
    pub args: Vec<String>,
    /// cwd relative to the repository root ("" = root)
    pub cwd: String,
    pub env: Vec<(String, String)>,
    /// None => no diff; stdin is /dev/null and BLOCKWATCH_TERMINAL_MODE is set unless `raw_stdin`.
    pub stdin: Option<Vec<u8>>,
    /// when true and stdin is None, BLOCKWATCH_TERMINAL_MODE is NOT set (empty non-terminal stdin)
    pub no_terminal: bool,
    pub timeout_s: Option<u64>,
    pub taskset: Option<String>,
}

impl BwRun {
    pub fn scan(args: &[&str]) -> Self {
        BwRun { args: args.iter().map(|s| s.to_string()).collect(), ..Default::default() }
    }
    pub fn diff(args: &[&str], diff: &[u8]) -> Self {
        BwRun {
            args: args.iter().map(|s| s.to_string()).collect(),
            stdin: Some(diff.to_vec()),
            ..Default::default()
        }
    }
    pub fn env(mut self, k: &str, v: &str) -> Self {
        self.env.push((k.into(), v.into()));
        self
    }
    pub fn cwd(mut self, c: &str) -> Self {
        self.cwd = c.into();
        self
    }
}

pub const DEFAULT_TIMEOUT_S: u64 = 60;

impl Sandbox {
    pub fn new() -> Self {
        let n = SANDBOX_SEQ.fetch_add(1, Ordering::Relaxed);
        let base = scratch_base().join(format!("p{}", std::process::id())).join(format!("s{n}"));
        let root = base.join("root");
        let home = base.join("home");
        std::fs::create_dir_all(&root).expect("create sandbox root");
        std::fs::create_dir_all(&home).expect("create sandbox home");
        // A .gitignore ABOVE the repository root never applies to the repository (git does not read it):
        // every sandbox carries one that would hide everything if it were honoured.
        let _ = std::fs::write(base.join(".gitignore"), "*\n");
        // ... and sits inside another working copy (a Mercurial one): the NEAREST repository marker is the root
        let _ = std::fs::create_dir_all(base.join(".hg"));
        Sandbox { base, root, home, keep: false }
    }

    /// A sandbox whose root merely *looks* like a repository (a `.git` directory), no git involved.
    pub fn with_fake_git() -> Self {
        let s = Self::new();
        std::fs::create_dir_all(s.root.join(".git")).unwrap();
        s
    }

    pub fn keep(&mut self) {
        self.keep = true;
    }

    pub fn write(&self, rel: &str, content: &[u8]) {
        let p = self.root.join(rel);
        if let Some(parent) = p.parent() {
            std::fs::create_dir_all(parent).unwrap();
        }
        std::fs::write(&p, content).unwrap_or_else(|e| panic!("write {p:?}: {e}"));
    }

    pub fn remove(&self, rel: &str) {
        let _ = std::fs::remove_file(self.root.join(rel));
    }

    pub fn read(&self, rel: &str) -> Vec<u8> {
        std::fs::read(self.root.join(rel)).unwrap_or_default()
    }

    fn base_cmd(&self, program: &Path) -> Command {
        let mut c = Command::new(program);
        c.env_clear()
            .env("PATH", "/usr/local/bin:/usr/bin:/bin")
            .env("HOME", &self.home)
            .env("XDG_CONFIG_HOME", self.home.join("xdg"))
            .env("GIT_CONFIG_GLOBAL", "/dev/null")
            .env("GIT_CONFIG_SYSTEM", "/dev/null")
            .env("GIT_CONFIG_NOSYSTEM", "1")
            .env("GIT_AUTHOR_NAME", "v")
            .env("GIT_AUTHOR_EMAIL", "v@example.invalid")
            .env("GIT_AUTHOR_DATE", "2020-01-01T00:00:00Z")
            .env("GIT_COMMITTER_NAME", "v")
            .env("GIT_COMMITTER_EMAIL", "v@example.invalid")
            .env("GIT_COMMITTER_DATE", "2020-01-01T00:00:00Z")
            .env("LC_ALL", "C.UTF-8")
            .env("TZ", "UTC")
            .env("RUST_BACKTRACE", "0");
        c
    }

    pub fn git(&self, args: &[&str]) -> Out {
        let mut c = self.base_cmd(Path::new("git"));
        c.current_dir(&self.root)
            .args(["-c", "core.quotepath=true", "-c", "core.autocrlf=false", "-c", "core.safecrlf=false", "-c", "init.defaultBranch=main", "-c", "advice.detachedHead=false", "-c", "gc.auto=0", "-c", "core.fsync=none"])
            .args(args);
        run_cmd(c, None, DEFAULT_TIMEOUT_S)
    }

    pub fn git_ok(&self, args: &[&str]) -> Out {
        let o = self.git(args);
        if o.code != Some(0) {
            panic!("git {:?} failed: {}", args, o.brief());
        }
        o
    }

    /// git diff exits 0 (or 1 with --exit-code); returns raw bytes as String (lossy is fine: inputs are UTF-8).
    pub fn git_diff(&self, args: &[&str]) -> String {
        let mut a = vec!["diff", "--no-color", "--no-ext-diff"];
        a.extend_from_slice(args);
        let o = self.git(&a);
        if o.code != Some(0) {
            panic!("git diff {:?} failed: {}", args, o.brief());
        }
        o.stdout
    }

    pub fn init_repo(&self) {
        self.git_ok(&["init", "-q"]);
    }

    pub fn commit_all(&self, msg: &str) {
        self.git_ok(&["add", "-A"]);
        self.git_ok(&["commit", "-q", "--allow-empty", "-m", msg]);
    }

    pub fn bw(&self, run: &BwRun) -> Out {
        let bin = bw_bin();
        let mut c = if let Some(mask) = &run.taskset {
            let mut c = self.base_cmd(Path::new("taskset"));
            c.arg("-c").arg(mask).arg(&bin);
            c
        } else {
            self.base_cmd(&bin)
        };
        let cwd = if run.cwd.is_empty() { self.root.clone() } else { self.root.join(&run.cwd) };
        c.current_dir(cwd).args(&run.args);
        if run.stdin.is_none() && !run.no_terminal {
            c.env("BLOCKWATCH_TERMINAL_MODE", "1");
        }
        for (k, v) in &run.env {
            c.env(k, v);
        }
        run_cmd(c, Some(run.stdin.clone().unwrap_or_default()), run.timeout_s.unwrap_or(DEFAULT_TIMEOUT_S))
    }
}

impl Drop for Sandbox {
    fn drop(&mut self) {
        if !self.keep {
            let _ = std::fs::remove_dir_all(&self.base);
        }
    }
}

pub fn run_cmd(mut c: Command, stdin: Option<Vec<u8>>, timeout_s: u64) -> Out {
    let t0 = Instant::now();
    c.stdin(if stdin.is_some() { Stdio::piped() } else { Stdio::null() })
        .stdout(Stdio::piped())
        .stderr(Stdio::piped());
    let mut child = match c.spawn() {
        Ok(ch) => ch,
        Err(e) => panic!("spawn {:?}: {e}", c.get_program()),
    };
    let mut sin = child.stdin.take();
    let data = stdin.unwrap_or_default();
    let feeder = std::thread::spawn(move || {
        if let Some(mut s) = sin.take() {
            let _ = s.write_all(&data);
        }
    });
    let mut so = child.stdout.take().unwrap();
    let mut se = child.stderr.take().unwrap();
    let t_out = std::thread::spawn(move || {
        let mut b = Vec::new();
        let _ = so.read_to_end(&mut b);
        b
    });
    let t_err = std::thread::spawn(move || {
        let mut b = Vec::new();
        let _ = se.read_to_end(&mut b);
        b
    });
    let deadline = t0 + Duration::from_secs(timeout_s);
    let mut timed_out = false;
    let mut sleep_us = 200u64;
    let status = loop {
        match child.try_wait() {
            Ok(Some(st)) => break st,
            Ok(None) => {
                if Instant::now() >= deadline {
                    timed_out = true;
                    let _ = child.kill();
                    break child.wait().expect("wait after kill");
                }
                std::thread::sleep(Duration::from_micros(sleep_us));
                if sleep_us < 5000 {
                    sleep_us += sleep_us / 4;
                }
            }
            Err(e) => panic!("try_wait: {e}"),
        }
    };
    let _ = feeder.join();
    let stdout = t_out.join().unwrap_or_default();
    let stderr = t_err.join().unwrap_or_default();
    use std::os::unix::process::ExitStatusExt;
    Out {
        code: status.code(),
        signal: status.signal(),
        stdout: String::from_utf8_lossy(&stdout).into_owned(),
        stderr: String::from_utf8_lossy(&stderr).into_owned(),
        timed_out,
        wall_ms: t0.elapsed().as_millis() as u64,
    }
}
