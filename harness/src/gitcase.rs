//! Pairs of repository states turned into real `git diff` output in a generated mode.
use crate::cli::Sandbox;
use crate::engine::pick_idx;
use proptest::prelude::*;
use serde::{Deserialize, Serialize};

#[derive(Clone, Debug, Serialize, Deserialize, Hash, PartialEq, Eq)]
pub struct DiffMode {
    /// context width -U0..10
    pub unified: u8,
    /// 0 unstaged, 1 --cached, 2 HEAD, 3 commit-to-commit
    pub kind: u8,
    /// 0 default, 1 myers, 2 minimal, 3 patience, 4 histogram
    pub algo: u8,
    /// detect renames (-M)
    pub renames: bool,
}

pub fn mode_strategy() -> BoxedStrategy<DiffMode> {
    (prop_oneof![3 => Just(3u8), 2 => Just(0u8), 3 => 0u8..11], 0u8..5, 0u8..5, any::<bool>())
        .prop_map(|(unified, kind, algo, renames)| DiffMode { unified, kind, algo, renames })
        .boxed()
}

#[derive(Clone, Debug, Serialize, Deserialize, Hash, PartialEq, Eq)]
pub enum Edit {
    /// new lines [at, at+k) are absent from the old state
    Add { at: u16, k: u8 },
    /// the old state has k extra lines after new line `at` (0 = before the first line)
    Del { at: u16, k: u8 },
    /// new line `at` has a different text in the old state
    Rep { at: u16 },
}

pub fn edits_strategy(max: usize) -> BoxedStrategy<Vec<Edit>> {
    let e = prop_oneof![
        3 => (any::<u16>(), 1u8..4).prop_map(|(at, k)| Edit::Add { at, k }),
        2 => (any::<u16>(), 1u8..4).prop_map(|(at, k)| Edit::Del { at, k }),
        3 => any::<u16>().prop_map(|at| Edit::Rep { at }),
    ];
    proptest::collection::vec(e, 0..max).boxed()
}

pub const HOSTILE: &[&str] = &["-- x", "++ y", "--- a/f", "+++ b/f", "@@ -1 +1 @@", "diff --git a/x b/x", "\\ No newline at end of file", "+plus", "-minus", "index 123..456 100644", "--", "++"];

/// Derives the old text of a file from its new text and an edit script expressed on new-side lines.
/// `variant(line_no, new_text)` gives the old text of a replaced line.
pub fn old_text(new_text: &str, edits: &[Edit], hostile: bool, variant: &dyn Fn(usize, &str) -> String) -> String {
    let had_nl = new_text.ends_with('\n');
    let body = new_text.strip_suffix('\n').unwrap_or(new_text);
    let lines: Vec<&str> = if body.is_empty() && !had_nl { vec![] } else { body.split('\n').collect() };
    let n = lines.len();
    let mut added = vec![false; n + 1];
    let mut replaced: Vec<bool> = vec![false; n + 1];
    let mut dels: Vec<Vec<String>> = vec![vec![]; n + 1];
    let mut serial = 0usize;
    for e in edits {
        match e {
            Edit::Add { at, k } => {
                if n == 0 {
                    continue;
                }
                let p = 1 + pick_idx(*at, n);
                for q in p..(p + *k as usize).min(n + 1) {
                    added[q] = true;
                }
            }
            Edit::Del { at, k } => {
                let g = pick_idx(*at, n + 1);
                for _ in 0..*k {
                    serial += 1;
                    let t = if hostile { HOSTILE[(serial + g) % HOSTILE.len()].to_string() } else { format!("removed_line_{serial}();") };
                    dels[g].push(t);
                }
            }
            Edit::Rep { at } => {
                if n == 0 {
                    continue;
                }
                replaced[1 + pick_idx(*at, n)] = true;
            }
        }
    }
    let mut out: Vec<String> = vec![];
    out.extend(dels[0].iter().cloned());
    for i in 1..=n {
        if !added[i] {
            out.push(if replaced[i] { variant(i, lines[i - 1]) } else { lines[i - 1].to_string() });
        }
        out.extend(dels[i].iter().cloned());
    }
    let mut s = out.join("\n");
    if !out.is_empty() {
        s.push('\n');
    }
    s
}

pub struct StatePair {
    /// (path, old text or None when the file is new, new text or None when it is deleted, old path when renamed).
    /// Two path prefixes ask for entries a text pair cannot express: `@x:<path>` — the file becomes executable
    /// in the new state (a mode-only entry when both texts are equal); `@l:<path>` — the old state holds a
    /// symbolic link whose target is the old text, the new state a regular file (git prints a deletion
    /// followed by an addition of the same path).
    pub files: Vec<(String, Option<String>, Option<String>, Option<String>)>,
}

/// Builds the repository, leaves the working tree equal to the new state and returns git's diff.
pub fn make_diff(sb: &Sandbox, pair: &StatePair, mode: &DiffMode) -> String {
    sb.init_repo();
    sb.write(".gitattributes", b"* -text\n");
    for (path, old, _, old_path) in &pair.files {
        if let Some(o) = old {
            if let Some(link) = path.strip_prefix("@l:") {
                let _ = std::os::unix::fs::symlink(o, sb.root.join(link));
                continue;
            }
            let path = path.strip_prefix("@x:").unwrap_or(path);
            sb.write(old_path.as_deref().unwrap_or(path), o.as_bytes());
        }
    }
    sb.commit_all("old");
    for (path, old, new, old_path) in &pair.files {
        if let (Some(_), Some(op)) = (old, old_path)
            && op != path
        {
            sb.remove(op);
        }
        let exec = path.starts_with("@x:");
        let path = path.strip_prefix("@x:").or_else(|| path.strip_prefix("@l:")).unwrap_or(path);
        match new {
            Some(t) => {
                sb.remove(path); // never write through a symbolic link of the old state
                sb.write(path, t.as_bytes());
                if exec {
                    use std::os::unix::fs::PermissionsExt;
                    let _ = std::fs::set_permissions(sb.root.join(path), std::fs::Permissions::from_mode(0o755));
                }
            }
            None => sb.remove(path),
        }
    }
    let u = format!("-U{}", mode.unified.min(10));
    let mut args: Vec<&str> = vec![&u];
    let algo = ["", "--diff-algorithm=myers", "--diff-algorithm=minimal", "--diff-algorithm=patience", "--diff-algorithm=histogram"][mode.algo as usize % 5];
    if !algo.is_empty() {
        args.push(algo);
    }
    args.push(if mode.renames { "-M" } else { "--no-renames" });
    match mode.kind % 5 {
        0 => {
            // unstaged: new files must be known to git to show up (intent-to-add)
            sb.git_ok(&["add", "-A", "-N"]);
            sb.git_diff(&args)
        }
        1 => {
            sb.git_ok(&["add", "-A"]);
            args.push("--cached");
            sb.git_diff(&args)
        }
        2 => {
            sb.git_ok(&["add", "-A"]);
            args.push("HEAD");
            sb.git_diff(&args)
        }
        3 => {
            sb.commit_all("new");
            args.push("HEAD~1");
            args.push("HEAD");
            sb.git_diff(&args)
        }
        _ => {
            // `git show`: the same commit-to-commit diff behind the commit's header and message
            sb.commit_all("new state\n\nSecond paragraph of the message.");
            let mut a = vec!["show", "--no-color", "--no-ext-diff"];
            a.extend_from_slice(&args);
            let o = sb.git(&a);
            if o.code != Some(0) {
                panic!("git show {:?} failed: {}", args, o.brief());
            }
            o.stdout
        }
    }
}
