pub mod cli;
pub mod engine;
pub mod fakeai;
pub mod known;
pub mod models;
pub mod props;
pub mod report;
pub mod rules;
