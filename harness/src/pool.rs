//! In-process work moved into helper processes (`bwv __inproc`): the blockwatch library runs inside a child
//! that the parent can kill, so an input on which a grammar does not terminate cannot wedge the check.
use serde::{Deserialize, Serialize};
use std::io::{BufRead, BufReader, Write};
use std::process::{Child, ChildStdin, Command, Stdio};
use std::sync::mpsc::{Receiver, RecvTimeoutError, channel};
use std::time::Duration;

#[derive(Serialize, Deserialize, Debug)]
pub struct Req {
    pub files: Vec<(String, String)>,
    pub validate: bool,
}

#[derive(Serialize, Deserialize, Debug, Clone)]
pub struct Resp {
    /// "ok" | "err" | "panic"
    pub outcome: String,
    pub msg: String,
}

pub struct Worker {
    child: Child,
    stdin: ChildStdin,
    rx: Receiver<String>,
}

#[derive(Debug)]
pub enum CallError {
    Timeout,
    Died,
}

impl Worker {
    pub fn spawn() -> Worker {
        let exe = std::env::current_exe().expect("current_exe");
        let mut child = Command::new(exe).arg("__inproc").stdin(Stdio::piped()).stdout(Stdio::piped()).stderr(Stdio::null()).spawn().expect("spawn in-process worker");
        let stdin = child.stdin.take().unwrap();
        let stdout = child.stdout.take().unwrap();
        let (tx, rx) = channel();
        std::thread::spawn(move || {
            let r = BufReader::new(stdout);
            for line in r.lines() {
                match line {
                    Ok(l) => {
                        if tx.send(l).is_err() {
                            break;
                        }
                    }
                    Err(_) => break,
                }
            }
        });
        Worker { child, stdin, rx }
    }

    pub fn call(&mut self, req: &Req, timeout: Duration) -> Result<Resp, CallError> {
        let line = serde_json::to_string(req).unwrap();
        if self.stdin.write_all(line.as_bytes()).is_err() || self.stdin.write_all(b"\n").is_err() || self.stdin.flush().is_err() {
            return Err(CallError::Died);
        }
        match self.rx.recv_timeout(timeout) {
            Ok(l) => serde_json::from_str(&l).map_err(|_| CallError::Died),
            Err(RecvTimeoutError::Timeout) => Err(CallError::Timeout),
            Err(RecvTimeoutError::Disconnected) => Err(CallError::Died),
        }
    }

    pub fn kill(&mut self) {
        let _ = self.child.kill();
        let _ = self.child.wait();
    }
}

impl Drop for Worker {
    fn drop(&mut self) {
        self.kill();
    }
}

thread_local! {
    static WORKER: std::cell::RefCell<Option<Worker>> = const { std::cell::RefCell::new(None) };
}

/// Runs one request on this thread's worker process (spawned on demand, respawned after a kill).
pub fn call(req: &Req, timeout: Duration) -> Result<Resp, CallError> {
    WORKER.with(|w| {
        let mut w = w.borrow_mut();
        if w.is_none() {
            *w = Some(Worker::spawn());
        }
        let r = w.as_mut().unwrap().call(req, timeout);
        if r.is_err() {
            if let Some(mut old) = w.take() {
                old.kill();
            }
        }
        r
    })
}

/// Child side: read requests line by line, answer each with one line.
pub fn serve() {
    crate::inproc::quiet_panics();
    let stdin = std::io::stdin();
    let stdout = std::io::stdout();
    for line in stdin.lock().lines() {
        let Ok(line) = line else { break };
        let Ok(req) = serde_json::from_str::<Req>(&line) else { break };
        let resp = match crate::inproc::pipeline(&req.files, None, req.validate) {
            crate::inproc::Outcome::Ok { .. } => Resp { outcome: "ok".into(), msg: String::new() },
            crate::inproc::Outcome::Err(e) => Resp { outcome: "err".into(), msg: e },
            crate::inproc::Outcome::Panic(m) => Resp { outcome: "panic".into(), msg: m },
        };
        let mut o = stdout.lock();
        let _ = writeln!(o, "{}", serde_json::to_string(&resp).unwrap());
        let _ = o.flush();
    }
}

/// Child side of the grammar probe: parse a file with the language's grammar only (no blockwatch code).
pub fn ts_parse_only(lang_id: &str, path: &str) -> i32 {
    let text = std::fs::read_to_string(path).unwrap_or_default();
    let Some(l) = crate::langs::LANGS.iter().find(|l| l.id == lang_id) else { return 3 };
    match crate::langs::healthy(l.id, &text) {
        Some(_) => 0,
        None => 3,
    }
}
