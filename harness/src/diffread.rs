//! Independent reader of git's unified diffs (harness side). Driven by the hunk header counts, so file
//! content can never be mistaken for a header line.
use serde::Serialize;

#[derive(Debug, Clone, Serialize)]
pub struct Group {
    /// (old line number, text) of the removed lines of this change group
    pub removed: Vec<(usize, String)>,
    /// (new line number, text) of the added lines of this change group
    pub added: Vec<(usize, String)>,
    /// number of new-side lines before this group: the group sits in the gap between new lines
    /// `gap` and `gap + 1` (for a pure deletion that is where the deletion happened)
    pub gap: usize,
    /// git printed `\ No newline at end of file` after the last removed line of this group: the old file's last
    /// line had no terminator (an added line with the same text differs from it in the terminator only)
    pub old_eof_marker: bool,
}

impl Group {
    pub fn pure_deletion(&self) -> bool {
        self.added.is_empty() && !self.removed.is_empty()
    }
    pub fn pure_addition(&self) -> bool {
        self.removed.is_empty() && !self.added.is_empty()
    }
    pub fn mixed(&self) -> bool {
        !self.removed.is_empty() && !self.added.is_empty()
    }
}

#[derive(Debug, Clone, Serialize, Default)]
pub struct FileDiff {
    pub old_path: Option<String>,
    pub new_path: Option<String>,
    pub groups: Vec<Group>,
    pub hunks: usize,
    pub binary: bool,
}

impl FileDiff {
    pub fn added_lines(&self) -> Vec<usize> {
        self.groups.iter().flat_map(|g| g.added.iter().map(|(n, _)| *n)).collect()
    }
    /// A body line whose text makes it print as `--- …` / `+++ …` (K3 signature).
    pub fn has_header_lookalike_body_line(&self) -> bool {
        self.groups.iter().any(|g| g.removed.iter().any(|(_, t)| t.starts_with("-- ")) || g.added.iter().any(|(_, t)| t.starts_with("++ ")))
    }
}

fn strip_path(p: &str, prefix: &str) -> Option<String> {
    let p = p.trim_end_matches('\t');
    if p == "/dev/null" {
        return None;
    }
    Some(p.strip_prefix(prefix).unwrap_or(p).to_string())
}

pub fn parse(diff: &str) -> Result<Vec<FileDiff>, String> {
    let lines: Vec<&str> = diff.split('\n').collect();
    let mut out: Vec<FileDiff> = vec![];
    let mut i = 0;
    while i < lines.len() {
        let l = lines[i];
        if l.starts_with("diff --git ") {
            out.push(FileDiff::default());
            i += 1;
            // extended headers until ---/+++ or next diff
            while i < lines.len() && !lines[i].starts_with("diff --git ") && !lines[i].starts_with("@@ ") {
                let h = lines[i];
                let cur = out.last_mut().unwrap();
                if let Some(p) = h.strip_prefix("--- ") {
                    cur.old_path = strip_path(p, "a/");
                } else if let Some(p) = h.strip_prefix("+++ ") {
                    cur.new_path = strip_path(p, "b/");
                } else if let Some(p) = h.strip_prefix("rename from ") {
                    cur.old_path = Some(p.to_string());
                } else if let Some(p) = h.strip_prefix("rename to ") {
                    cur.new_path = Some(p.to_string());
                } else if h.starts_with("Binary files ") {
                    cur.binary = true;
                }
                i += 1;
            }
            continue;
        }
        if l.starts_with("@@ ") {
            let cur = out.last_mut().ok_or("hunk before any file header")?;
            // @@ -a[,b] +c[,d] @@
            let mut parts = l.split(' ');
            parts.next();
            let old = parts.next().ok_or("bad hunk header")?.trim_start_matches('-');
            let new = parts.next().ok_or("bad hunk header")?.trim_start_matches('+');
            let rng = |s: &str| -> Result<(usize, usize), String> {
                let mut it = s.split(',');
                let a = it.next().unwrap().parse::<usize>().map_err(|e| format!("hunk header {l:?}: {e}"))?;
                let b = match it.next() {
                    Some(x) => x.parse::<usize>().map_err(|e| format!("hunk header {l:?}: {e}"))?,
                    None => 1,
                };
                Ok((a, b))
            };
            let (os, ol) = rng(old)?;
            let (ns, nl) = rng(new)?;
            cur.hunks += 1;
            // for a zero-length side git prints the line *before* the position
            let mut old_no = if ol == 0 { os + 1 } else { os };
            let mut new_no = if nl == 0 { ns + 1 } else { ns };
            let (mut oc, mut nc) = (0usize, 0usize);
            i += 1;
            let mut group: Option<Group> = None;
            while (oc < ol || nc < nl) && i < lines.len() {
                let b = lines[i];
                i += 1;
                let (tag, text) = match b.chars().next() {
                    Some(c @ ('+' | '-' | ' ')) => (c, &b[1..]),
                    Some('\\') => {
                        // "\ No newline at end of file"
                        if let Some(g) = group.as_mut()
                            && g.added.is_empty()
                        {
                            g.old_eof_marker = true;
                        }
                        continue;
                    }
                    None => (' ', ""),     // an empty context line whose trailing space was stripped
                    Some(c) => return Err(format!("unexpected hunk body line starting with {c:?}: {b:?}")),
                };
                let text = text.strip_suffix('\r').unwrap_or(text);
                match tag {
                    ' ' => {
                        if let Some(g) = group.take() {
                            cur.groups.push(g);
                        }
                        old_no += 1;
                        new_no += 1;
                        oc += 1;
                        nc += 1;
                    }
                    '-' => {
                        if group.as_ref().is_some_and(|g| !g.added.is_empty()) {
                            cur.groups.push(group.take().unwrap());
                        }
                        let g = group.get_or_insert_with(|| Group { removed: vec![], added: vec![], gap: new_no - 1, old_eof_marker: false });
                        g.removed.push((old_no, text.to_string()));
                        old_no += 1;
                        oc += 1;
                    }
                    _ => {
                        let g = group.get_or_insert_with(|| Group { removed: vec![], added: vec![], gap: new_no - 1, old_eof_marker: false });
                        g.added.push((new_no, text.to_string()));
                        new_no += 1;
                        nc += 1;
                    }
                }
            }
            if let Some(g) = group.take() {
                cur.groups.push(g);
            }
            // a trailing "\ No newline" marker
            while i < lines.len() && lines[i].starts_with('\\') {
                i += 1;
            }
            continue;
        }
        i += 1;
    }
    Ok(out)
}
