//! Generation engine: proptest-driven random parts, smallest-first enumerated parts, replay of saved cases,
//! evidence and exit-status protocol.
use proptest::strategy::{BoxedStrategy, Strategy};
use proptest::test_runner::{Config, RngSeed, TestCaseError, TestError, TestRunner};
use serde::Serialize;
use serde::de::DeserializeOwned;
use serde_json::{Value, json};
use std::cell::Cell;
use std::collections::hash_map::DefaultHasher;
use std::collections::{BTreeMap, HashSet};
use std::fmt::Debug;
use std::hash::{Hash, Hasher};
use std::path::PathBuf;
use std::sync::Mutex;
use std::sync::atomic::{AtomicBool, AtomicU64, AtomicUsize, Ordering};
use std::time::Instant;

#[derive(Clone, Copy, PartialEq, Eq, Debug)]
pub enum Tier {
    Quick,
    Thorough,
}

impl Tier {
    pub fn pick<T>(self, quick: T, thorough: T) -> T {
        match self {
            Tier::Quick => quick,
            Tier::Thorough => thorough,
        }
    }
    pub fn name(self) -> &'static str {
        self.pick("quick", "thorough")
    }
}

pub fn hash_of<T: Hash + ?Sized>(t: &T) -> u64 {
    let mut h = DefaultHasher::new();
    t.hash(&mut h);
    h.finish()
}

#[derive(Debug)]
pub enum Verdict {
    Pass,
    /// The statement does not decide this case (or the case left the generator's sound domain).
    Unspecified(&'static str),
    /// Mismatch attributed to a listed known finding (id).
    Known(&'static str),
    Fail(String),
    /// Failure of a batch, with the reduced (single-item) case to store as the replay.
    FailReduced(String, Value),
}

#[derive(Default)]
pub struct Stats {
    pub evaluations: AtomicU64,
    pub child_runs: AtomicU64,
    nontrivial: Mutex<HashSet<u64>>,
    classes: Mutex<BTreeMap<String, u64>>,
    samples: Mutex<Vec<Value>>,
    known_hits: Mutex<BTreeMap<String, u64>>,
    unspecified: Mutex<BTreeMap<String, u64>>,
    pub stop: AtomicBool,
    inconclusive: Mutex<Vec<String>>,
    parts: Mutex<Vec<Value>>,
    exhaustive_parts: Mutex<Vec<String>>,
}

pub struct Probe<'a> {
    pub stats: &'a Stats,
    pub(crate) counting: bool,
    pub(crate) case_key: u64,
    pub strict: bool,
}

impl Probe<'_> {
    /// Mark the current case as non-trivial by the property's stated rule.
    pub fn nontrivial(&self) {
        if self.counting {
            self.stats.nontrivial.lock().unwrap().insert(self.case_key);
        }
    }
    /// Mark a distinct non-trivial sub-case (e.g. one block inside a batch).
    pub fn nontrivial_sub<T: Hash>(&self, sub: &T) {
        if self.counting {
            self.stats.nontrivial.lock().unwrap().insert(hash_of(&(self.case_key, hash_of(sub))));
        }
    }
    pub fn class(&self, name: &str) {
        if self.counting {
            *self.stats.classes.lock().unwrap().entry(name.to_string()).or_insert(0) += 1;
        }
    }
    pub fn class_n(&self, name: &str, n: u64) {
        if self.counting && n > 0 {
            *self.stats.classes.lock().unwrap().entry(name.to_string()).or_insert(0) += n;
        }
    }
    /// Extra evaluations inside one generated case (e.g. blocks in a batch, runs in a matrix).
    pub fn evals(&self, n: u64) {
        if self.counting {
            self.stats.evaluations.fetch_add(n, Ordering::Relaxed);
        }
    }
    pub fn child(&self) {
        self.stats.child_runs.fetch_add(1, Ordering::Relaxed);
    }
    pub fn sample(&self, f: impl FnOnce() -> Value) {
        if self.counting {
            let mut s = self.stats.samples.lock().unwrap();
            if s.len() < 6 {
                s.push(f());
            }
        }
    }
    pub fn known(&self, id: &str) {
        if self.counting {
            *self.stats.known_hits.lock().unwrap().entry(id.to_string()).or_insert(0) += 1;
        }
    }
}

#[derive(Debug, Clone)]
pub struct Violation {
    pub part: String,
    pub reason: String,
    pub case: Value,
}

pub struct Run {
    pub prop: &'static str,
    pub tier: Tier,
    pub seed: u64,
    pub workers: usize,
    pub replay: Option<(String, Value)>,
    pub stats: Stats,
    pub violations: Vec<Violation>,
    pub known_lines: Vec<String>,
    pub assumptions: Vec<String>,
    pub rule: String,
    pub level_note: String,
    /// shrink budget for random parts (lower it for cases that cost many child processes)
    pub shrink_iters: u32,
    t0: Instant,
}

pub fn verif_dir() -> PathBuf {
    crate::cli::verif_dir()
}

impl Run {
    pub fn new(prop: &'static str, tier: Tier, seed: u64, replay: Option<(String, Value)>) -> Self {
        let workers = std::env::var("BWV_WORKERS").ok().and_then(|s| s.parse().ok()).unwrap_or_else(|| {
            std::thread::available_parallelism().map(|n| n.get()).unwrap_or(8)
        });
        Run {
            prop,
            tier,
            seed,
            workers,
            replay,
            stats: Stats::default(),
            violations: vec![],
            known_lines: vec![],
            assumptions: vec![],
            rule: String::new(),
            level_note: String::new(),
            shrink_iters: 400,
            t0: Instant::now(),
        }
    }

    pub fn is_replay(&self) -> bool {
        self.replay.is_some()
    }

    pub fn inconclusive(&self, msg: String) {
        self.stats.inconclusive.lock().unwrap().push(msg);
    }

    fn regress_cases(&self, part: &str) -> Vec<(String, Value)> {
        let dir = verif_dir().join("regress").join(self.prop);
        let mut out = vec![];
        if let Ok(rd) = std::fs::read_dir(&dir) {
            let mut names: Vec<_> = rd.filter_map(|e| e.ok()).map(|e| e.path()).collect();
            names.sort();
            for p in names {
                if p.extension().and_then(|s| s.to_str()) != Some("json") {
                    continue;
                }
                if let Ok(txt) = std::fs::read_to_string(&p)
                    && let Ok(v) = serde_json::from_str::<Value>(&txt)
                    && v.get("part").and_then(Value::as_str) == Some(part)
                    && let Some(c) = v.get("case")
                {
                    out.push((p.display().to_string(), c.clone()));
                }
            }
        }
        out
    }

    /// Runs saved cases (the replay file in replay mode, the regress directory otherwise) through `check`
    /// without proptest. Returns true when in replay mode (the caller must not generate).
    fn saved_cases<C, F>(&mut self, part: &str, check: &F) -> bool
    where
        C: Debug + Clone + Serialize + DeserializeOwned,
        F: Fn(&C, &Probe) -> Verdict + Sync,
    {
        let (cases, replay_mode) = match &self.replay {
            Some((p, c)) => (if p == part { vec![("replay".to_string(), c.clone())] } else { vec![] }, true),
            None => (self.regress_cases(part), false),
        };
        for (src, cv) in cases {
            let c: C = match serde_json::from_value(cv.clone()) {
                Ok(c) => c,
                Err(e) => {
                    self.inconclusive(format!("saved case {src} does not deserialise for part {part}: {e}"));
                    continue;
                }
            };
            let probe = Probe { stats: &self.stats, counting: true, case_key: hash_of(&cv.to_string()), strict: replay_mode };
            self.stats.evaluations.fetch_add(1, Ordering::Relaxed);
            probe.class(if replay_mode { "replayed" } else { "regress" });
            match check(&c, &probe) {
                Verdict::Fail(reason) => self.violations.push(Violation { part: part.to_string(), reason, case: cv }),
                Verdict::FailReduced(reason, red) => self.violations.push(Violation { part: part.to_string(), reason, case: red }),
                Verdict::Known(id) => {
                    probe.known(id);
                    if replay_mode {
                        println!("replay: mismatch attributed to known finding {id}");
                    }
                }
                Verdict::Unspecified(why) => {
                    if replay_mode {
                        println!("replay: case is unspecified ({why})");
                    }
                }
                Verdict::Pass => {
                    if replay_mode {
                        println!("replay: case passes");
                    }
                }
            }
        }
        replay_mode
    }

    /// Re-runs the committed sentinel input of a known finding (known/<id>.json). The KNOWN-FINDING line is
    /// printed only while the finding is listed *and* the sentinel still reproduces it.
    pub fn sentinel<C, F>(&mut self, id: &'static str, part: &str, check: F)
    where
        C: Debug + Clone + Serialize + DeserializeOwned,
        F: Fn(&C, &Probe) -> Verdict,
    {
        if self.is_replay() || !crate::known::listed(id) {
            return;
        }
        let p = verif_dir().join("known").join(format!("{id}.json"));
        let Ok(txt) = std::fs::read_to_string(&p) else {
            self.inconclusive(format!("known finding {id} has no sentinel file {}", p.display()));
            return;
        };
        let v: Value = serde_json::from_str(&txt).unwrap_or(Value::Null);
        if v.get("part").and_then(Value::as_str) != Some(part) {
            return;
        }
        let Ok(c) = serde_json::from_value::<C>(v.get("case").cloned().unwrap_or(Value::Null)) else {
            self.inconclusive(format!("sentinel {} does not deserialise", p.display()));
            return;
        };
        let probe = Probe { stats: &self.stats, counting: true, case_key: hash_of(&txt), strict: false };
        self.stats.evaluations.fetch_add(1, Ordering::Relaxed);
        probe.class("sentinel");
        match check(&c, &probe) {
            Verdict::Known(k) if k == id => {
                probe.known(id);
                if let Some(l) = crate::known::line(id, self.prop) {
                    self.known_lines.push(l);
                }
            }
            Verdict::Pass | Verdict::Unspecified(_) | Verdict::Known(_) => {
                println!("note: the sentinel of known finding {id} no longer reproduces it (no KNOWN-FINDING line printed)");
            }
            Verdict::Fail(reason) | Verdict::FailReduced(reason, _) => {
                self.violations.push(Violation { part: part.to_string(), reason: format!("sentinel of {id} fails differently: {reason}"), case: v.get("case").cloned().unwrap_or(Value::Null) });
            }
        }
    }

    /// proptest-driven part: `cases` random cases split over the workers, each worker with its own
    /// deterministic seed; failures are shrunk as whole values.
    pub fn random<C, M, F>(&mut self, part: &str, cases: u32, mk: M, check: F)
    where
        C: Debug + Clone + Serialize + DeserializeOwned + Send,
        M: Fn() -> BoxedStrategy<C> + Sync,
        F: Fn(&C, &Probe) -> Verdict + Sync,
    {
        if self.saved_cases::<C, F>(part, &check) {
            return;
        }
        let workers = self.workers.max(1).min(cases.max(1) as usize);
        let per = (cases as usize).div_ceil(workers) as u32;
        let stats = &self.stats;
        let prop = self.prop;
        let seed = self.seed;
        let shrink_iters = std::env::var("BWV_SHRINK").ok().and_then(|s| s.parse().ok()).unwrap_or(self.shrink_iters);
        let t0 = Instant::now();
        let before = stats.evaluations.load(Ordering::Relaxed);
        let found: Mutex<Vec<Violation>> = Mutex::new(vec![]);
        std::thread::scope(|sc| {
            for w in 0..workers {
                let found = &found;
                let mk = &mk;
                let check = &check;
                sc.spawn(move || {
                    let wseed = hash_of(&(seed, prop, part, w as u64));
                    let res = std::panic::catch_unwind(std::panic::AssertUnwindSafe(|| {
                        let mut runner = TestRunner::new(Config {
                            cases: per,
                            rng_seed: RngSeed::Fixed(wseed),
                            failure_persistence: None,
                            max_shrink_iters: shrink_iters,
                            max_global_rejects: 65536,
                            ..Config::default()
                        });
                        let strategy = mk();
                        let failed = Cell::new(false);
                        runner.run(&strategy, |c| {
                            if !failed.get() && stats.stop.load(Ordering::Relaxed) {
                                return Ok(());
                            }
                            let counting = !failed.get();
                            let key = if counting { hash_of(&serde_json::to_string(&c).unwrap_or_default()) } else { 0 };
                            let probe = Probe { stats, counting, case_key: key, strict: false };
                            if counting {
                                stats.evaluations.fetch_add(1, Ordering::Relaxed);
                            }
                            let verdict = match std::panic::catch_unwind(std::panic::AssertUnwindSafe(|| check(&c, &probe))) {
                                Ok(v) => v,
                                Err(p) => {
                                    // a panic inside the harness is never a violation of the property
                                    let msg = p.downcast_ref::<String>().cloned().or_else(|| p.downcast_ref::<&str>().map(|s| s.to_string())).unwrap_or_else(|| "panic".into());
                                    stats.stop.store(true, Ordering::Relaxed);
                                    stats.inconclusive.lock().unwrap().push(format!("part {part} worker {w}: harness panic: {msg}"));
                                    return Ok(());
                                }
                            };
                            match verdict {
                                Verdict::Pass => Ok(()),
                                Verdict::Unspecified(why) => {
                                    if counting {
                                        *stats.unspecified.lock().unwrap().entry(why.to_string()).or_insert(0) += 1;
                                    }
                                    Ok(())
                                }
                                Verdict::Known(id) => {
                                    probe.known(id);
                                    Ok(())
                                }
                                Verdict::Fail(m) | Verdict::FailReduced(m, _) => {
                                    failed.set(true);
                                    Err(TestCaseError::fail(m))
                                }
                            }
                        })
                    }));
                    match res {
                        Ok(Ok(())) => {}
                        Ok(Err(TestError::Fail(reason, value))) => {
                            stats.stop.store(true, Ordering::Relaxed);
                            found.lock().unwrap().push(Violation {
                                part: part.to_string(),
                                reason: reason.message().to_string(),
                                case: serde_json::to_value(&value).unwrap_or(Value::Null),
                            });
                        }
                        Ok(Err(TestError::Abort(reason))) => {
                            stats.inconclusive.lock().unwrap().push(format!("part {part} worker {w}: generator aborted: {}", reason.message()));
                        }
                        Err(p) => {
                            let msg = p.downcast_ref::<String>().cloned().or_else(|| p.downcast_ref::<&str>().map(|s| s.to_string())).unwrap_or_else(|| "panic".into());
                            stats.stop.store(true, Ordering::Relaxed);
                            stats.inconclusive.lock().unwrap().push(format!("part {part} worker {w}: harness panic: {msg}"));
                        }
                    }
                });
            }
        });
        let mut f = found.into_inner().unwrap();
        // Keep the smallest (by serialised size) first; report at most 3 per part.
        f.sort_by_key(|v| v.case.to_string().len());
        f.truncate(3);
        let n_found = f.len();
        self.violations.extend(f);
        self.stats.parts.lock().unwrap().push(json!({
            "part": part, "kind": "random (proptest)", "cases_requested": cases, "workers": workers,
            "evaluations": stats.evaluations.load(Ordering::Relaxed) - before,
            "wall_s": t0.elapsed().as_secs_f64(), "violations": n_found,
        }));
        // a violation in one part must not silence the other parts
        self.stats.stop.store(false, Ordering::Relaxed);
    }

    /// Enumerated part: every item is checked (smallest first: the first failure by index is reported
    /// as the minimal one).
    pub fn enumerate<C, F>(&mut self, part: &str, items: Vec<C>, exhaustive_of: Option<&str>, check: F)
    where
        C: Debug + Clone + Serialize + DeserializeOwned + Send + Sync,
        F: Fn(&C, &Probe) -> Verdict + Sync,
    {
        if self.saved_cases::<C, F>(part, &check) {
            return;
        }
        let stats = &self.stats;
        let t0 = Instant::now();
        let before = stats.evaluations.load(Ordering::Relaxed);
        let next = AtomicUsize::new(0);
        let first_fail = AtomicUsize::new(usize::MAX);
        let found: Mutex<Vec<(usize, Violation)>> = Mutex::new(vec![]);
        let workers = self.workers.max(1).min(items.len().max(1));
        std::thread::scope(|sc| {
            for w in 0..workers {
                let items = &items;
                let next = &next;
                let first_fail = &first_fail;
                let found = &found;
                let check = &check;
                sc.spawn(move || {
                    let res = std::panic::catch_unwind(std::panic::AssertUnwindSafe(|| {
                        loop {
                            let i = next.fetch_add(1, Ordering::Relaxed);
                            if i >= items.len() || i > first_fail.load(Ordering::Relaxed) {
                                break;
                            }
                            let c = &items[i];
                            let key = hash_of(&serde_json::to_string(c).unwrap_or_default());
                            let probe = Probe { stats, counting: true, case_key: key, strict: false };
                            stats.evaluations.fetch_add(1, Ordering::Relaxed);
                            match check(c, &probe) {
                                Verdict::Pass => {}
                                Verdict::Unspecified(why) => {
                                    *stats.unspecified.lock().unwrap().entry(why.to_string()).or_insert(0) += 1;
                                }
                                Verdict::Known(id) => probe.known(id),
                                Verdict::Fail(reason) => {
                                    first_fail.fetch_min(i, Ordering::Relaxed);
                                    found.lock().unwrap().push((
                                        i,
                                        Violation { part: part.to_string(), reason, case: serde_json::to_value(c).unwrap_or(Value::Null) },
                                    ));
                                }
                                Verdict::FailReduced(reason, red) => {
                                    first_fail.fetch_min(i, Ordering::Relaxed);
                                    found.lock().unwrap().push((i, Violation { part: part.to_string(), reason, case: red }));
                                }
                            }
                        }
                    }));
                    if let Err(p) = res {
                        let msg = p.downcast_ref::<String>().cloned().or_else(|| p.downcast_ref::<&str>().map(|s| s.to_string())).unwrap_or_else(|| "panic".into());
                        stats.inconclusive.lock().unwrap().push(format!("part {part} worker {w}: harness panic: {msg}"));
                        first_fail.fetch_min(0, Ordering::Relaxed);
                    }
                });
            }
        });
        let mut f = found.into_inner().unwrap();
        f.sort_by_key(|(i, _)| *i);
        f.truncate(1);
        let n_found = f.len();
        let complete = n_found == 0 && self.stats.inconclusive.lock().unwrap().is_empty();
        if let (Some(what), true) = (exhaustive_of, complete) {
            self.stats.exhaustive_parts.lock().unwrap().push(format!("{part}: {what}"));
        }
        self.violations.extend(f.into_iter().map(|(_, v)| v));
        self.stats.parts.lock().unwrap().push(json!({
            "part": part, "kind": "enumerated (smallest first)", "items": items.len(),
            "evaluations": stats.evaluations.load(Ordering::Relaxed) - before,
            "exhaustive_of": exhaustive_of, "wall_s": t0.elapsed().as_secs_f64(), "violations": n_found,
        }));
    }

    /// Coverage-guided part (thorough tier): runs a libFuzzer target built by `cargo +nightly fuzz build` in
    /// `jobs` processes with fixed `-runs`, distinct `-seed`s and a shared fresh corpus; every artifact is handed
    /// to `triage`, which re-checks it through the regular (CLI-confirmed) check and returns the case to store.
    pub fn fuzz_part(&mut self, target: &str, replay_part: &str, runs_per_job: u64, jobs: usize, max_len: u32, seeds: Vec<Vec<u8>>, triage: &dyn Fn(&[u8], &Probe) -> (Verdict, Value)) {
        if self.is_replay() {
            return;
        }
        let vd = verif_dir();
        let bin = vd.join("target/fuzz/x86_64-unknown-linux-gnu/release").join(target);
        if !bin.exists() {
            self.stats.parts.lock().unwrap().push(json!({"part": format!("fuzz:{target}"), "kind": "libFuzzer", "skipped": format!("fuzz target binary {} not built (cargo +nightly fuzz build failed or was not run)", bin.display())}));
            println!("note: libFuzzer part {target} skipped: target binary not built");
            return;
        }
        let t0 = Instant::now();
        let corpus = vd.join("target/fuzz-corpus").join(format!("{}-{target}", self.prop));
        let arts = vd.join("target/fuzz-artifacts").join(format!("{}-{target}", self.prop));
        let _ = std::fs::remove_dir_all(&corpus);
        let _ = std::fs::remove_dir_all(&arts);
        std::fs::create_dir_all(&corpus).unwrap();
        std::fs::create_dir_all(&arts).unwrap();
        for (i, s) in seeds.iter().enumerate() {
            let _ = std::fs::write(corpus.join(format!("seed{i:04}")), s);
        }
        let mut children = vec![];
        for j in 0..jobs {
            let mut c = std::process::Command::new(&bin);
            c.arg(&corpus)
                .arg(format!("-runs={runs_per_job}"))
                .arg(format!("-seed={}", (self.seed.wrapping_add(j as u64) % 4_000_000_000).max(1)))
                .arg(format!("-max_len={max_len}"))
                .arg("-len_control=0")
                .arg("-timeout=25")
                .arg("-rss_limit_mb=4096")
                .arg("-print_final_stats=1")
                .arg(format!("-artifact_prefix={}/", arts.display()))
                .env("RUST_BACKTRACE", "0")
                .stdin(std::process::Stdio::null())
                .stdout(std::process::Stdio::null());
            // stderr goes to a file per job: a pipe would fill up and stall every job but the one being read
            let log = arts.join(format!("job{j}.log"));
            match std::fs::File::create(&log) {
                Ok(f) => {
                    c.stderr(f);
                }
                Err(_) => {
                    c.stderr(std::process::Stdio::null());
                }
            }
            if let Ok(ch) = c.spawn() {
                children.push((ch, log));
            }
        }
        let mut total_runs = 0u64;
        let mut failed_jobs = 0;
        for (mut ch, log) in children {
            if let Ok(st) = ch.wait() {
                let err = std::fs::read_to_string(&log).unwrap_or_default();
                for l in err.lines() {
                    if let Some(r) = l.strip_prefix("stat::number_of_executed_units:") {
                        total_runs += r.trim().parse::<u64>().unwrap_or(0);
                    }
                }
                if !st.success() {
                    failed_jobs += 1;
                }
            }
            let _ = std::fs::remove_file(&log);
        }
        self.stats.evaluations.fetch_add(total_runs, Ordering::Relaxed);
        let mut n_art = 0;
        let mut n_viol = 0;
        if let Ok(rd) = std::fs::read_dir(&arts) {
            let mut files: Vec<_> = rd.flatten().map(|e| e.path()).collect();
            files.sort();
            for f in files.into_iter().filter(|f| !f.to_string_lossy().ends_with(".log")).take(8) {
                let Ok(bytes) = std::fs::read(&f) else { continue };
                n_art += 1;
                let probe = Probe { stats: &self.stats, counting: true, case_key: hash_of(&bytes), strict: false };
                let (v, case) = triage(&bytes, &probe);
                match v {
                    Verdict::Fail(reason) | Verdict::FailReduced(reason, _) => {
                        n_viol += 1;
                        self.violations.push(Violation { part: replay_part.to_string(), reason: format!("{reason}\n(found by libFuzzer target {target}, artifact {})", f.display()), case });
                    }
                    Verdict::Known(id) => probe.known(id),
                    Verdict::Unspecified(why) => {
                        *self.stats.unspecified.lock().unwrap().entry(why.to_string()).or_insert(0) += 1;
                    }
                    Verdict::Pass => {
                        // an in-process artifact that the CLI-confirmed check does not reproduce
                        self.inconclusive(format!("libFuzzer artifact {} is not reproduced by the regular check (harness discrepancy)", f.display()));
                    }
                }
            }
        }
        let corpus_size = std::fs::read_dir(&corpus).map(|r| r.count()).unwrap_or(0);
        self.stats.parts.lock().unwrap().push(json!({
            "part": format!("fuzz:{target}"), "kind": "libFuzzer (coverage-guided, semantic oracle in target)", "jobs": jobs, "runs_per_job": runs_per_job,
            "executed_units": total_runs, "seed_corpus": seeds.len(), "final_corpus": corpus_size, "jobs_ended_abnormally": failed_jobs,
            "artifacts": n_art, "violations": n_viol, "wall_s": t0.elapsed().as_secs_f64(),
        }));
        let _ = std::fs::remove_dir_all(&corpus);
    }

    /// Writes evidence, replay files and protocol lines; returns the process exit status.
    pub fn finish(self) -> i32 {
        let vd = verif_dir();
        let wall = self.t0.elapsed().as_secs_f64();
        let inconclusive = self.stats.inconclusive.lock().unwrap().clone();
        let mut replay_paths = vec![];
        if !self.is_replay() {
            let dir = vd.join("replays").join(self.prop);
            let _ = std::fs::create_dir_all(&dir);
            for v in &self.violations {
                let body = json!({
                    "property": self.prop, "part": v.part, "reason": v.reason, "case": v.case,
                    "seed": self.seed, "tier": self.tier.name(),
                    "replay_cmd": format!("./run {} --replay <this file>", self.prop),
                });
                let txt = serde_json::to_string_pretty(&body).unwrap();
                let p = dir.join(format!("{:016x}.json", hash_of(&(v.part.as_str(), v.case.to_string()))));
                let _ = std::fs::write(&p, txt);
                replay_paths.push(p.display().to_string());
            }
        }
        for l in &self.known_lines {
            println!("{l}");
        }
        for (i, v) in self.violations.iter().enumerate() {
            let path = replay_paths.get(i).cloned().unwrap_or_else(|| "(replay mode)".into());
            println!("--- violation in part {} ---\n{}", v.part, v.reason);
            println!("VIOLATION property={} replay={}", self.prop, path);
        }
        for m in &inconclusive {
            println!("INCONCLUSIVE: {m}");
        }
        let code = if !self.violations.is_empty() {
            1
        } else if !inconclusive.is_empty() {
            2
        } else {
            0
        };
        if !self.is_replay() {
            let nontrivial = self.stats.nontrivial.lock().unwrap().len();
            let exhaustive = self.stats.exhaustive_parts.lock().unwrap().clone();
            let ev = json!({
                "property_id": self.prop,
                "tier": self.tier.name(),
                "seed": self.seed,
                "level": "exploration",
                "coverage": {
                    "evaluations": self.stats.evaluations.load(Ordering::Relaxed),
                    "distinct_nontrivial": nontrivial,
                    "rule": self.rule,
                    "samples": self.stats.samples.lock().unwrap().clone(),
                    "exhaustive": !exhaustive.is_empty() && code == 0,
                    "exhaustive_subspaces": exhaustive,
                    "class_histogram": self.stats.classes.lock().unwrap().clone(),
                    "unspecified_by_statement": self.stats.unspecified.lock().unwrap().clone(),
                    "attributed_to_known_findings": self.stats.known_hits.lock().unwrap().clone(),
                    "child_processes": self.stats.child_runs.load(Ordering::Relaxed),
                    "parts": self.stats.parts.lock().unwrap().clone(),
                    "workers": self.workers,
                    "inconclusive": inconclusive,
                    "known_finding_lines": self.known_lines,
                },
                "assumptions": self.assumptions,
                "wall_s": wall,
                "violations": self.violations.len(),
            });
            let dir = vd.join("evidence");
            let _ = std::fs::create_dir_all(&dir);
            let p = dir.join(format!("{}.json", self.prop));
            let tmp = dir.join(format!("{}.json.tmp", self.prop));
            std::fs::write(&tmp, serde_json::to_string_pretty(&ev).unwrap()).expect("write evidence");
            std::fs::rename(&tmp, &p).expect("rename evidence");
        }
        println!(
            "{} {} seed={} evaluations={} nontrivial={} violations={} wall={:.1}s exit={}",
            self.prop,
            self.tier.name(),
            self.seed,
            self.stats.evaluations.load(Ordering::Relaxed),
            self.stats.nontrivial.lock().unwrap().len(),
            self.violations.len(),
            wall,
            code
        );
        code
    }
}

/// Monotone index mapping (shrinks well): maps a u16 onto 0..len.
pub fn pick_idx(i: u16, len: usize) -> usize {
    if len == 0 { 0 } else { ((i as usize) * len) >> 16 }
}

/// Strategy helper: choose one of a static slice (shrinks towards the first element).
pub fn one_of<T: Clone + Debug + 'static>(items: &'static [T]) -> BoxedStrategy<T> {
    (0..items.len()).prop_map(move |i| items[i].clone()).boxed()
}

pub fn one_of_vec<T: Clone + Debug + 'static>(items: Vec<T>) -> BoxedStrategy<T> {
    let n = items.len();
    (0..n).prop_map(move |i| items[i].clone()).boxed()
}
