use bwv::engine::{Run, Tier};
use serde_json::Value;

fn usage() -> ! {
    eprintln!("usage: bwv <C01..C20> <quick|thorough>   |   bwv <ID> --replay <file>");
    std::process::exit(2)
}

fn main() {
    let args: Vec<String> = std::env::args().skip(1).collect();
    if args.first().map(String::as_str) == Some("__inproc") {
        bwv::pool::serve();
        return;
    }
    if args.first().map(String::as_str) == Some("__tsparse") && args.len() == 3 {
        std::process::exit(bwv::pool::ts_parse_only(&args[1], &args[2]));
    }
    if args.first().map(String::as_str) == Some("__sexp") && args.len() == 3 {
        // debugging aid: the grammar's own parse tree of a file (language id, path)
        let id: &'static str = Box::leak(args[1].clone().into_boxed_str());
        println!("{}", bwv::langs::sexp(id, &std::fs::read_to_string(&args[2]).unwrap_or_default()));
        return;
    }
    if args.len() < 2 {
        usage();
    }
    let prop = args[0].to_uppercase();
    let seed: u64 = std::env::var("VERIF_SEED").ok().and_then(|s| s.trim().parse::<i128>().ok()).map(|v| v as u64).unwrap_or(20260101);
    let (tier, replay) = if args[1] == "--replay" {
        let path = args.get(2).unwrap_or_else(|| usage());
        let txt = std::fs::read_to_string(path).unwrap_or_else(|e| {
            eprintln!("cannot read {path}: {e}");
            std::process::exit(2)
        });
        let v: Value = serde_json::from_str(&txt).unwrap_or_else(|e| {
            eprintln!("replay file is not JSON: {e}");
            std::process::exit(2)
        });
        let part = v.get("part").and_then(Value::as_str).unwrap_or("").to_string();
        let case = v.get("case").cloned().unwrap_or(Value::Null);
        (Tier::Quick, Some((part, case)))
    } else {
        let t = match args[1].as_str() {
            "quick" => Tier::Quick,
            "thorough" => Tier::Thorough,
            _ => match std::env::var("VERIF_TIER").as_deref() {
                Ok("thorough") => Tier::Thorough,
                _ => usage(),
            },
        };
        (t, None)
    };
    bwv::cli::clean_scratch_for_pid();
    let Some((id, f)) = bwv::props::TABLE.iter().find(|(id, _)| *id == prop) else {
        eprintln!("unknown property {prop}");
        std::process::exit(2)
    };
    let mut run = Run::new(id, tier, seed, replay);
    f(&mut run);
    let code = run.finish();
    bwv::cli::clean_scratch_for_pid();
    std::process::exit(code);
}
