//! Batches of rule-bearing blocks in the standard layout (own-line tag comments), run through the real CLI.
use crate::cli::{BwRun, Out, Sandbox};
use crate::engine::Probe;
use crate::report::{Diag, parse_diags};
use serde::{Deserialize, Serialize};

#[derive(Clone, Copy, Debug, PartialEq, Eq, Hash, Serialize, Deserialize)]
pub enum Host {
    Sh,
    Py,
    Rb,
    Js,
    Toml,
    /// shell file with CRLF line terminators
    ShCrlf,
    /// shell file in which the end-tag comment trails the block's last content line (`last line # </block>`)
    ShTrail,
}

impl Host {
    pub fn file(self) -> &'static str {
        match self {
            Host::Sh => "batch.sh",
            Host::Py => "batch.py",
            Host::Rb => "batch.rb",
            Host::Js => "batch.js",
            Host::Toml => "batch.toml",
            Host::ShCrlf => "batch_crlf.sh",
            Host::ShTrail => "batch_trail.sh",
        }
    }
    pub fn open(self) -> &'static str {
        match self {
            Host::Js => "// ",
            _ => "# ",
        }
    }
}

#[derive(Clone, Debug, PartialEq, Eq, Hash, Serialize, Deserialize)]
pub struct RuleBlock {
    /// attributes in written order; value None = bare attribute
    pub attrs: Vec<(String, Option<String>)>,
    pub lines: Vec<String>,
    /// indentation (spaces) before the tag comments
    pub indent: usize,
}

pub fn quote_attr(v: &str) -> String {
    if !v.contains('"') {
        format!("\"{v}\"")
    } else {
        assert!(!v.contains('\''), "value contains both quote characters");
        format!("'{v}'")
    }
}

pub fn render_tag(attrs: &[(String, Option<String>)]) -> String {
    render_tag_styled(attrs, 0)
}

/// How `name=value` is spelled: 0 `k="v"`, 1 `k = "v"`, 2 `k ="v"` (white space around `=` is part of the tag syntax).
pub const EQ_STYLES: [&str; 3] = ["=", " = ", " ="];

pub fn render_tag_styled(attrs: &[(String, Option<String>)], style: usize) -> String {
    let mut s = String::from("<block");
    for (k, v) in attrs {
        s.push(' ');
        s.push_str(k);
        if let Some(v) = v {
            s.push_str(EQ_STYLES[style % EQ_STYLES.len()]);
            s.push_str(&quote_attr(v));
        }
    }
    s.push('>');
    s
}

/// One spelling of `=` per rendered file, drawn from its first block (so that a file may hold no compact
/// `name=` at all).
pub fn eq_style_of(first: Option<&RuleBlock>) -> usize {
    match first.map(|b| (b.lines.len() + b.indent + b.attrs.len()) % 5) {
        Some(1) => 1,
        Some(2) => 2,
        _ => 0,
    }
}

#[derive(Clone, Debug)]
pub struct BlockPos {
    /// 1-based line of the start tag comment
    pub tag_line: usize,
    /// 1-based byte column of '<' and of '>'
    pub tag_sc: usize,
    pub tag_ec: usize,
    /// 1-based line of content line 0
    pub first_line: usize,
    /// 1-based line of the end tag comment
    pub end_line: usize,
}

pub struct Rendered {
    pub text: String,
    pub pos: Vec<BlockPos>,
}

pub fn render_batch(host: Host, blocks: &[RuleBlock]) -> Rendered {
    let mut text = String::new();
    let mut line = 1usize;
    let mut pos = Vec::with_capacity(blocks.len());
    let eq_style = eq_style_of(blocks.first());
    if host == Host::Sh || host == Host::ShCrlf || host == Host::ShTrail {
        text.push_str("#!/bin/sh\n");
        line += 1;
    }
    for b in blocks {
        let ind = " ".repeat(b.indent);
        let tag = render_tag_styled(&b.attrs, eq_style);
        let tag_sc = ind.len() + host.open().len() + 1;
        let tag_ec = tag_sc + tag.len() - 1;
        text.push_str(&format!("{ind}{}{tag}\n", host.open()));
        let tag_line = line;
        line += 1;
        let first_line = line;
        let trailing_end = host == Host::ShTrail && !b.lines.is_empty();
        for (k, l) in b.lines.iter().enumerate() {
            debug_assert!(!l.contains('\n'));
            text.push_str(l);
            if trailing_end && k + 1 == b.lines.len() {
                break;
            }
            text.push('\n');
            line += 1;
        }
        let end_line = line;
        if trailing_end {
            // the last content line and the end tag share a source line (the blank in front of `#` is content)
            text.push_str(&format!(" {}</block>\n\n", host.open()));
        } else {
            text.push_str(&format!("{ind}{}</block>\n\n", host.open()));
        }
        line += 2;
        pos.push(BlockPos { tag_line, tag_sc, tag_ec, first_line, end_line });
        // every fourth block is followed by a block WITHOUT any rule whose lines would violate all of them:
        // nothing may ever be reported for it (a diagnostic there counts as stray)
        if pos.len() % 4 == 0 {
            text.push_str(&format!("{}<block name=\"plain{}\" note=\"no rules\">\nb\na\na\nB 1\n{}</block>\n\n", host.open(), pos.len(), host.open()));
            line += 7;
        }
    }
    if host == Host::ShCrlf {
        text = text.replace('\n', "\r\n");
    }
    Rendered { text, pos }
}

#[derive(Clone, Debug, PartialEq, Eq)]
pub struct ExpDiag {
    pub code: String,
    pub sl: u64,
    pub sc: u64,
    pub el: u64,
    pub ec: u64,
    /// (json pointer, canonical json) pairs that must be present in `data`
    pub data: Vec<(String, String)>,
    pub severity: u64,
}

impl ExpDiag {
    pub fn key(code: &str, pos: &BlockPos, line_idx: usize, span: (usize, usize)) -> Self {
        let l = (pos.first_line + line_idx) as u64;
        ExpDiag { code: code.into(), sl: l, sc: span.0 as u64 + 1, el: l, ec: span.1 as u64, data: vec![], severity: 1 }
    }
    pub fn tag(code: &str, pos: &BlockPos) -> Self {
        ExpDiag {
            code: code.into(),
            sl: pos.tag_line as u64,
            sc: pos.tag_sc as u64,
            el: pos.tag_line as u64,
            ec: pos.tag_ec as u64,
            data: vec![],
            severity: 1,
        }
    }
    pub fn with_data(mut self, ptr: &str, v: serde_json::Value) -> Self {
        self.data.push((ptr.to_string(), crate::report::canonical(&v)));
        self
    }
    pub fn sev(mut self, s: u64) -> Self {
        self.severity = s;
        self
    }
    pub fn matches(&self, d: &Diag) -> bool {
        d.code == self.code
            && d.severity == self.severity
            // an EMPTY key has no last byte: its end column is unspecified (start - 1 and start are both accepted)
            && (d.sl, d.sc, d.el) == (self.sl, self.sc, self.el)
            && (d.ec == self.ec || (self.ec + 1 == self.sc && d.ec == self.sc))
            && self.data.iter().all(|(p, want)| {
                d.data_json().pointer(p).map(crate::report::canonical).as_deref() == Some(want.as_str())
            })
    }
}

pub struct BatchResult {
    pub out: Out,
    /// per block: observed diagnostics whose start line lies in the block's extent
    pub per_block: Vec<Vec<Diag>>,
    pub stray: Vec<Diag>,
    pub parse_error: Option<String>,
}

pub fn run_batch(host: Host, blocks: &[RuleBlock], probe: &Probe, extra_args: &[&str]) -> (Rendered, BatchResult) {
    let r = render_batch(host, blocks);
    let res = run_rendered(host.file(), &r, probe, extra_args, &[]);
    (r, res)
}

/// Runs a scan over one rendered file and assigns the diagnostics to blocks by line extent.
pub fn run_rendered(file: &str, r: &Rendered, probe: &Probe, extra_args: &[&str], env: &[(&str, &str)]) -> BatchResult {
    let sb = Sandbox::with_fake_git();
    sb.write(file, r.text.as_bytes());
    let mut args: Vec<&str> = extra_args.to_vec();
    args.push(file);
    probe.child();
    let mut run = BwRun::scan(&args);
    for (k, v) in env {
        run = run.env(k, v);
    }
    let out = sb.bw(&run);
    let mut per_block: Vec<Vec<Diag>> = vec![vec![]; r.pos.len()];
    let mut stray = vec![];
    let mut parse_error = None;
    match parse_diags(&out.stderr) {
        Ok(ds) => {
            for d in ds {
                if d.file != file {
                    stray.push(d);
                    continue;
                }
                // blocks are laid out in increasing line order
                let idx = r.pos.partition_point(|p| p.end_line < d.sl as usize);
                if idx < r.pos.len() && r.pos[idx].tag_line <= d.sl as usize {
                    per_block[idx].push(d);
                } else {
                    stray.push(d);
                }
            }
        }
        Err(e) => parse_error = Some(e),
    }
    BatchResult { out, per_block, stray, parse_error }
}

/// Compares expected vs observed diagnostics of one block as multisets.
pub fn diff_block(exp: &[ExpDiag], obs: &[Diag]) -> Option<String> {
    let mut used = vec![false; obs.len()];
    let mut missing = vec![];
    for e in exp {
        if let Some(i) = (0..obs.len()).find(|&i| !used[i] && e.matches(&obs[i])) {
            used[i] = true;
        } else {
            missing.push(e.clone());
        }
    }
    let extra: Vec<&Diag> = obs.iter().enumerate().filter(|(i, _)| !used[*i]).map(|(_, d)| d).collect();
    if missing.is_empty() && extra.is_empty() {
        None
    } else {
        Some(format!("expected-but-missing: {missing:?}; observed-but-unexpected: {extra:?}"))
    }
}

/// Expected process status of a validation run given the expected diagnostics (C11's rule).
pub fn expected_exit(all: &[ExpDiag]) -> i32 {
    if all.iter().any(|d| d.severity == 1) { 1 } else { 0 }
}
