//! C20 — same input, same verdict: runs are deterministic and location-independent.
use super::{c01, c02, c11};
use crate::cli::{BwRun, Out, Sandbox};
use crate::engine::{Probe, Run, Verdict};
use crate::gitcase::{self, DiffMode, StatePair};
use crate::report::{parse_diags, parse_listing};
use proptest::prelude::*;
use serde::{Deserialize, Serialize};
use serde_json::json;

#[derive(Clone, Debug, Serialize, Deserialize)]
pub enum Scenario {
    Mix(c11::MCase),
    Drift(c01::DriftCase),
    Touch(c02::TouchCase),
}

#[derive(Clone, Debug, Serialize, Deserialize)]
pub struct DetCase {
    pub scenario: Scenario,
    pub perm_seed: u64,
}

struct Material {
    pair: StatePair,
    mode: Option<DiffMode>,
    scan_paths: Vec<String>,
    has_scripts: bool,
}

fn material(s: &Scenario) -> Option<Material> {
    match s {
        Scenario::Mix(c) => {
            let laid = c11::lay_out(c);
            let has_scripts = c.files.iter().any(|f| f.blocks.iter().any(|b| b.lua.is_some()));
            Some(Material {
                pair: StatePair { files: laid.iter().map(|l| (l.path.clone(), None, Some(l.text.clone()), None)).collect() },
                mode: if c.mode % 3 == 2 { Some(DiffMode { unified: 3, kind: 1, algo: 0, renames: false }) } else { None },
                // mode 1 is the interactive scan of the whole tree (no path arguments)
                scan_paths: if c.mode % 3 == 1 { vec![] } else { laid.iter().map(|l| l.path.replace('\\', "\\\\")).collect() },
                has_scripts,
            })
        }
        Scenario::Drift(c) => {
            let w = c01::world(c);
            for (i, f) in c.files.iter().enumerate() {
                let lid = crate::langs::SUFFIXES[f.suffix % crate::langs::SUFFIXES.len()].1;
                if crate::langs::healthy(crate::langs::lang(lid).id, &w.new_text[i]) == Some(false) {
                    return None;
                }
            }
            Some(Material { pair: c01::state_pair(c, &w), mode: Some(c.mode.clone()), scan_paths: vec![], has_scripts: false })
        }
        Scenario::Touch(c) => {
            let files: Vec<c02::RenderedFile> = c.files.iter().enumerate().map(|(i, f)| c02::render_file(i, f)).collect();
            let has_scripts = c.files.iter().any(|f| f.blocks.iter().any(|b| b.rules.iter().any(|(k, _)| k == "check-lua")));
            Some(Material {
                pair: StatePair { files: files.iter().map(|f| (f.path.clone(), Some(f.old.clone()), Some(f.new.clone()), None)).collect() },
                mode: Some(DiffMode { unified: c.unified % 11, kind: 0, algo: 0, renames: false }),
                scan_paths: vec![],
                has_scripts,
            })
        }
    }
}

fn normal(kind: &str, o: &Out) -> String {
    if o.timed_out {
        return "TIMEOUT".into();
    }
    if o.panicked() {
        return format!("CRASH {:?}", o.code);
    }
    if kind == "list" {
        match parse_listing(&o.stdout) {
            Ok(mut l) => {
                l.sort();
                format!("exit={:?} listing={:?}", o.code, l)
            }
            Err(_) => format!("exit={:?} no-listing stderr-nonempty={}", o.code, !o.stderr.trim().is_empty()),
        }
    } else {
        match parse_diags(&o.stderr) {
            Ok(d) => format!("exit={:?} diagnostics={:?}", o.code, d),
            Err(_) => format!("exit={:?} error-text", o.code),
        }
    }
}

fn permute_sections(diff: &str, seed: u64) -> Option<String> {
    let mut parts: Vec<String> = vec![];
    for l in diff.split_inclusive('\n') {
        if l.starts_with("diff --git ") || parts.is_empty() {
            parts.push(String::new());
        }
        parts.last_mut().unwrap().push_str(l);
    }
    if parts.len() < 2 {
        return None;
    }
    let n = parts.len();
    let k = 1 + (seed as usize % (n - 1));
    parts.rotate_left(k);
    if seed & 1 == 1 {
        parts.reverse();
    }
    Some(parts.concat())
}

pub fn check(c: &DetCase, probe: &Probe) -> Verdict {
    // in half of the rule-mix cases the script rules are dropped, so that the runs started from
    // sub-directories (only meaningful without script paths) happen for this scenario too
    let stripped;
    let scenario = match &c.scenario {
        Scenario::Mix(mc) if c.perm_seed & 8 != 0 => {
            let mut mc = mc.clone();
            for f in &mut mc.files {
                for b in &mut f.blocks {
                    b.lua = None;
                }
            }
            stripped = Scenario::Mix(mc);
            &stripped
        }
        s => s,
    };
    let Some(m) = material(scenario) else { return Verdict::Unspecified("generated source is not accepted by the language's own grammar") };
    probe.class(match &c.scenario {
        Scenario::Mix(_) => "scenario:rule-mix",
        Scenario::Drift(_) => "scenario:drift",
        Scenario::Touch(_) => "scenario:touched-blocks",
    });
    let fake = crate::fakeai::FakeAi::start(|_, req| {
        if req.user_message().unwrap_or_default().contains("BAD") { crate::fakeai::Reply::Text("objection from the fake endpoint".into()) } else { crate::fakeai::Reply::Text("OK".into()) }
    });
    let fake_url = fake.url();
    // in half of the cases the run also covers files recognised by whole name or compound suffix next to
    // unsupported files that share their last name component (or have none): which file is visited first
    // must not matter
    let mut m = m;
    if c.perm_seed & 4 != 0 {
        let extras: [(&str, &str); 8] = [
            // directories whose names look like supported files
            ("vendor/chart.js/README", "no tags here # <block>\n"),
            ("docs.md/notes.txt", "x </block>\n"),
            ("Makefile", "# <block name=\"mk\" keep-sorted>\nb\na\n# </block>\n"),
            ("LICENSE", "Permission is hereby granted # <block>\n"),
            ("AUTHORS", "someone </block>\n"),
            ("sub/go.mod", "module m\n// <block name=\"gm\" line-count=\"<1\">\nrequire a v1.0.0\n// </block>\n"),
            ("sub/deps.mod", "// <block>\n"),
            ("notes.d.ts", "// <block name=\"dts\" keep-unique>\nlet a;\nlet a;\n// </block>\n"),
        ];
        for (p, t) in extras {
            m.pair.files.push((p.to_string(), None, Some(t.to_string()), None));
            if !m.scan_paths.is_empty() {
                m.scan_paths.push(p.to_string());
            }
        }
        probe.class("with-whole-name-and-unsupported-files-and-file-like-directories");
    }
    // twin files: below the directories a run may start from, an UNCHANGED file under the same relative path as a
    // file the diff names (a package with its own README / config next to the repository's): the diff's paths are
    // relative to the repository root wherever blockwatch is started
    if c.perm_seed & 8 != 0 && m.mode.is_some() && !m.has_scripts {
        let mut dirs: Vec<String> = m.pair.files.iter().filter_map(|(p, _, _, _)| p.rsplit_once('/').map(|x| x.0.to_string())).filter(|d| !d.starts_with('@')).collect();
        dirs.sort();
        dirs.dedup();
        let named: Vec<(String, String)> = m.pair.files.iter().filter(|(p, old, new, _)| !p.starts_with('@') && new.is_some() && old != new).take(3).map(|(p, old, new, _)| (p.clone(), old.clone().or(new.clone()).unwrap())).collect();
        let mut twins = 0;
        for d in dirs.iter().take(3) {
            for (p, text) in &named {
                let twin = format!("{d}/{p}");
                if m.pair.files.iter().any(|(q, _, _, _)| *q == twin || q.starts_with(&format!("{twin}/")) || twin.starts_with(&format!("{q}/"))) {
                    continue;
                }
                m.pair.files.push((twin, Some(text.clone()), Some(text.clone()), None));
                twins += 1;
            }
        }
        if twins > 0 {
            probe.class("with-twin-files-below-the-start-directories");
        }
    }
    let mut baseline: Option<(String, String)> = None; // (validate, list)
    let mut variants = 0u64;
    let mut description = String::new();
    for reversed in [false, true] {
        let sb = Sandbox::new();
        let mut pair = StatePair { files: m.pair.files.clone() };
        if reversed {
            pair.files.reverse();
        }
        sb.write("echo.lua", c11::ECHO_LUA.as_bytes());
        sb.write("nil.lua", c11::NIL_LUA.as_bytes());
        let (diff, args): (Option<String>, Vec<String>) = match &m.mode {
            Some(mode) => (Some(gitcase::make_diff(&sb, &pair, mode)), vec![]),
            None => {
                std::fs::create_dir_all(sb.root.join(".git")).unwrap();
                for (p, _, new, _) in &pair.files {
                    sb.write(p, new.as_deref().unwrap_or("").as_bytes());
                }
                (None, m.scan_paths.clone())
            }
        };
        if description.is_empty() {
            description = format!("files: {:?}\nargs: {args:?}\n--- diff ---\n{}", pair.files.iter().map(|f| &f.0).collect::<Vec<_>>(), crate::cli::trunc(diff.as_deref().unwrap_or("(none: scan mode)"), 3000));
        }
        // sub-directories to start from (only when no rule refers to a script path)
        let mut cwds = vec![String::new()];
        if !m.has_scripts {
            let mut dirs: Vec<String> = pair.files.iter().filter_map(|(p, _, _, _)| p.rsplit_once('/').map(|x| x.0.to_string())).collect();
            dirs.sort();
            dirs.dedup();
            cwds.extend(dirs.into_iter().filter(|d| sb.root.join(d).is_dir()).take(2));
        }
        let mut configs: Vec<(String, Option<String>, Vec<(&str, &str)>, Option<&str>, String)> = vec![
            ("baseline".into(), diff.clone(), vec![], None, String::new()),
            ("repeat-1".into(), diff.clone(), vec![], None, String::new()),
            ("repeat-2".into(), diff.clone(), vec![], None, String::new()),
            ("one-core".into(), diff.clone(), vec![], Some("0"), String::new()),
            ("two-cores".into(), diff.clone(), vec![], Some("0,1"), String::new()),
            ("three-cores".into(), diff.clone(), vec![], Some("0-2"), String::new()),
            ("workers-1".into(), diff.clone(), vec![("TOKIO_WORKER_THREADS", "1")], None, String::new()),
            ("workers-16".into(), diff.clone(), vec![("TOKIO_WORKER_THREADS", "16")], None, String::new()),
        ];
        if let Some(d) = &diff
            && let Some(p) = permute_sections(d, c.perm_seed)
        {
            configs.push(("diff-sections-permuted".into(), Some(p), vec![], None, String::new()));
        }
        for d in cwds.iter().skip(1) {
            configs.push((format!("cwd={d}"), diff.clone(), vec![], None, d.clone()));
        }
        for (label, stdin, env, taskset, cwd) in &configs {
            for kind in ["validate", "list"] {
                let mut a: Vec<String> = if kind == "list" { vec!["list".into()] } else { vec![] };
                a.extend(args.iter().cloned());
                let argv: Vec<&str> = a.iter().map(String::as_str).collect();
                let mut run = match stdin {
                    Some(d) => BwRun::diff(&argv, d.as_bytes()),
                    None => BwRun::scan(&argv),
                };
                for (k, v) in env {
                    run = run.env(k, v);
                }
                run = run.env("BLOCKWATCH_AI_API_URL", &fake_url).env("BLOCKWATCH_AI_API_KEY", "k").env("BLOCKWATCH_AI_MODEL", "m");
                run.taskset = taskset.map(String::from);
                run.cwd = cwd.clone();
                // explicit scan paths are root-relative globs: valid from any cwd
                probe.child();
                probe.evals(1);
                variants += 1;
                let o = sb.bw(&run);
                let norm = normal(kind, &o);
                match &baseline {
                    None if kind == "validate" => baseline = Some((norm, String::new())),
                    Some((_, l)) if l.is_empty() && kind == "list" => baseline.as_mut().unwrap().1 = norm,
                    Some((v, l)) => {
                        let want = if kind == "validate" { v } else { l };
                        if &norm != want {
                            return Verdict::Fail(format!(
                                "C20: run variant `{label}` ({kind}; creation order {}) disagrees with the baseline run of the same input\n--- baseline ---\n{}\n--- variant ---\n{}\n{description}\n--- variant raw ---\n{}",
                                if reversed { "reversed" } else { "forward" },
                                crate::cli::trunc(want, 3000),
                                crate::cli::trunc(&norm, 3000),
                                o.brief()
                            ));
                        }
                    }
                    None => unreachable!(),
                }
            }
        }
    }
    let multi = m.pair.files.len() >= 2;
    if multi && baseline.as_ref().is_some_and(|(v, _)| v.contains("diagnostics=[Diag")) {
        probe.nontrivial();
    }
    probe.sample(|| json!({"variants_run": variants, "baseline_validate": crate::cli::trunc(&baseline.as_ref().unwrap().0, 300), "input": crate::cli::trunc(&description, 500)}));
    Verdict::Pass
}

pub fn case_strategy() -> BoxedStrategy<DetCase> {
    let scenario = prop_oneof![
        2 => c11::case_strategy().prop_map(Scenario::Mix),
        2 => c01::case_strategy().prop_map(Scenario::Drift),
        2 => c02::case_strategy().prop_map(Scenario::Touch),
    ];
    (scenario, any::<u64>()).prop_map(|(scenario, perm_seed)| DetCase { scenario, perm_seed }).boxed()
}

pub fn run(run: &mut Run) {
    run.rule = "random: cases drawn from the generators of C11 (rule/severity mixes, scan or new-file diff), C01 (drift: edit scripts and real git diffs in generated modes) and C02 (touched blocks with rules), well-formed rules only, in half of the cases together with a Makefile, go.mod and .d.ts file holding violating blocks next to unsupported LICENSE / AUTHORS / deps.mod files; each case is materialised twice (files created in forward and in reverse order, fresh repositories) and run as `validate` and as `list` under a matrix: 3 repetitions (fresh processes => fresh hash seeds), pinned to one, two and three cores, TOKIO_WORKER_THREADS 1 and 16, the diff's file sections rotated/reversed, and started from up to 2 sub-directories when no rule names a script path (in half of the diff-mode cases those directories hold UNCHANGED twin files under the same relative path as files the diff names). Every variant must give the same exit status and the same diagnostics / listing (compared after sorting). Evaluations count runs. Non-trivial = >= 2 files and a non-empty diagnostics report.".into();
    run.assumptions = vec!["hash seeds and thread schedules are sampled by repetition, not enumerated".into(), "error texts of failing runs are compared by exit status only".into()];
    run.shrink_iters = 60;
    run.random("matrix", run.tier.pick(250, 5000), case_strategy, check);
}
