//! C13 — malformed rules fail closed.
use crate::cli::{BwRun, Out, Sandbox};
use crate::engine::{Probe, Run, Verdict};
use crate::fakeai::{FakeAi, Reply};
use crate::report::parse_diags;
use crate::rules::{Host, RuleBlock, render_batch};
use serde::{Deserialize, Serialize};
use serde_json::json;

#[derive(Clone, Debug, Serialize, Deserialize, Hash, PartialEq, Eq)]
pub struct Bad {
    pub kind: String,
    /// the malformed attributes (name, value; None = bare)
    pub attrs: Vec<(String, Option<String>)>,
    /// attributes of the control run (the malformation repaired / removed)
    pub control_attrs: Vec<(String, Option<String>)>,
    pub lines: Vec<String>,
    /// 0 first, 1 middle, 2 last of three blocks in its file
    pub position: u8,
    /// bit 0: a healthy file sorting before, bit 1: a healthy file sorting after
    pub neighbours: u8,
    /// other, satisfied rules on the same block
    pub extra_rules: bool,
    /// 0 = scan with paths, 1 = interactive scan, 2 = new-file diff
    pub mode: u8,
    /// "", "lua-missing", "lua-dir", "lua-badutf8", "lua-empty", "ai", "ai-nokey", "ai-emptykey"
    pub special: String,
    /// the subject block is written on ONE source line of a JavaScript file
    /// (`/* <block …> */ a, b /* </block> */`): its content has no second physical line
    #[serde(default)]
    pub inline: bool,
    /// a healthy block with a (nil-returning) check-lua script in the same file: the run then takes the path
    /// that joins synchronous and asynchronous validators
    #[serde(default)]
    pub with_async: bool,
}

fn a(k: &str, v: &str) -> (String, Option<String>) {
    (k.to_string(), Some(v.to_string()))
}

fn table() -> Vec<Bad> {
    let mut t: Vec<Bad> = vec![];
    let mut push = |kind: &str, attrs: Vec<(String, Option<String>)>, control: Vec<(String, Option<String>)>, lines: &[&str], special: &str| {
        t.push(Bad {
            kind: kind.into(),
            attrs,
            control_attrs: control,
            lines: lines.iter().map(|s| s.to_string()).collect(),
            position: 0,
            neighbours: 0,
            extra_rules: false,
            mode: 0,
            special: special.into(),
            inline: false,
            with_async: false,
        })
    };
    for d in ["up", "ascending", "asc,desc", "1", "asc desc", "descending", "sorted"] {
        push("sort-direction", vec![a("keep-sorted", d)], vec![a("keep-sorted", "asc")], &["a", "b"], "");
    }
    for f in ["num", "numeric1", "number", "lex", "alpha", "int"] {
        push("sort-format", vec![a("keep-sorted", "asc"), a("keep-sorted-format", f)], vec![a("keep-sorted", "asc"), a("keep-sorted-format", "numeric")], &["1", "2"], "");
    }
    for ls in [&["1", "x"][..], &["a", "b"], &["1", "2x"], &["1", "2", "three"], &["0x10", "17"], &["abc"], &["", "n/a", ""], &["12 apples"]] {
        push("non-numeric-keys", vec![a("keep-sorted", "asc"), a("keep-sorted-format", "numeric")], vec![a("keep-sorted", "asc")], ls, "");
    }
    // every 1-, 2- and 3-line block over a small alphabet that has a key which is not a number (a single key included)
    // (incl. identical non-numeric neighbours, blank lines between keys, descending direction)
    let alpha = ["1", "2", "x", "n/a", ""];
    let mut seqs: Vec<Vec<&str>> = vec![];
    for x in alpha {
        seqs.push(vec![x]);
        for y in alpha {
            seqs.push(vec![x, y]);
            for z in alpha {
                seqs.push(vec![x, y, z]);
            }
        }
    }
    for (k, sq) in seqs.iter().enumerate() {
        let keys: Vec<&&str> = sq.iter().filter(|l| !l.is_empty()).collect();
        let non_numeric = keys.iter().any(|l| l.parse::<f64>().is_err());
        let dir = if k % 2 == 0 { "asc" } else { "desc" };
        // only blocks in which a non-numeric key is reached before any out-of-order pair: otherwise the
        // ordinary keep-sorted violation of the earlier pair is a legitimate (and failing) outcome
        let reaches_non_numeric = crate::models::keep_sorted(sq, if dir == "asc" { crate::models::Dir::Asc } else { crate::models::Dir::Desc }, None, true) == crate::models::KsOutcome::NonNumeric;
        if non_numeric && reaches_non_numeric {
            push("non-numeric-keys", vec![a("keep-sorted", dir), a("keep-sorted-format", "numeric")], vec![a("keep-sorted", dir), a("keep-sorted-format", "numeric"), a("keep-sorted-pattern", "^zzz$")], sq, "");
        }
    }
    for re in ["(", "[a-", "(?P<value>", "*a", "a{2,1}", "(?P<value>a)(?P<value>b)", "\\"] {
        push("regex:keep-sorted-pattern", vec![a("keep-sorted", "asc"), a("keep-sorted-pattern", re)], vec![a("keep-sorted", "asc")], &["a", "b"], "");
        push("regex:keep-unique", vec![a("keep-unique", re)], vec![a("keep-unique", "")], &["a", "b"], "");
        push("regex:line-pattern", vec![a("line-pattern", re)], vec![a("line-pattern", "^[a-z]+$")], &["a", "b"], "");
        push("regex:check-lua-pattern", vec![a("check-lua", "nil.lua"), a("check-lua-pattern", re)], vec![a("check-lua", "nil.lua")], &["a", "b"], "");
        push("regex:check-ai-pattern", vec![a("check-ai", "must be fine"), a("check-ai-pattern", re)], vec![a("check-ai", "must be fine")], &["a", "b"], "ai");
    }
    for e in ["", " ", "5", "=5", "< x", "<5>", "<=", "<99999999999999999999999", "!=3", "<-1", "< 1.5", "=<3", "=>3", "< 3 4", "three"] {
        push("line-count", vec![a("line-count", e)], vec![a("line-count", ">=0")], &["a", "b"], "");
    }
    for r in ["nocolon", "a.py", ":x, z", ""] {
        push("affects-no-colon", vec![a("affects", r)], vec![], &["a", "b"], "");
    }
    for s in ["warn", "fatal", "", "err", "2", "error "] {
        push("severity", vec![a("severity", s), a("keep-sorted", "asc")], vec![a("keep-sorted", "asc")], &["b", "a"], "");
    }
    // the unknown severity on a violating block of every other rule kind (synchronous and asynchronous)
    for s in ["warn", "fatal"] {
        push("severity", vec![a("severity", s), a("check-lua", "echo.lua")], vec![a("check-lua", "echo.lua")], &["b", "a"], "lua-echo");
        push("severity", vec![a("severity", s), a("line-count", "<1")], vec![a("line-count", "<1")], &["b", "a"], "");
        push("severity", vec![a("severity", s), ("keep-unique".into(), None)], vec![("keep-unique".into(), None)], &["a", "a"], "");
        push("severity", vec![a("severity", s), a("line-pattern", "^x")], vec![a("line-pattern", "^x")], &["b", "a"], "");
        push("severity", vec![a("severity", s), a("check-ai", "BAD condition")], vec![a("check-ai", "BAD condition")], &["b", "a"], "ai");
    }
    for (v, sp) in [("", ""), (" ", ""), ("missing.lua", "lua-missing"), ("scripts", "lua-dir"), ("bad.lua", "lua-badutf8"), ("empty.lua", "lua-empty")] {
        push("check-lua-script", vec![a("check-lua", v)], vec![a("check-lua", "nil.lua")], &["a", "b"], sp);
    }
    for v in ["", " "] {
        push("check-ai-empty-condition", vec![a("check-ai", v)], vec![a("check-ai", "must be fine")], &["a", "b"], "ai");
    }
    push("check-ai-no-key", vec![a("check-ai", "must be fine")], vec![a("check-ai", "must be fine")], &["a", "b"], "ai-nokey");
    push("check-ai-no-key", vec![a("check-ai", "must be fine")], vec![a("check-ai", "must be fine")], &["a", "b"], "ai-emptykey");
    // the key is missing whatever would have been sent: a pattern that extracts nothing, a pattern that extracts
    // something, a block without content
    for (pat, lines) in [("zzz-never", &["a", "b"][..]), ("[a-z]", &["a", "b"]), ("(?P<value>q+)", &["a", "b"])] {
        push("check-ai-no-key", vec![a("check-ai", "must be fine"), a("check-ai-pattern", pat)], vec![a("check-ai", "must be fine"), a("check-ai-pattern", pat)], lines, "ai-nokey");
        push("check-ai-no-key", vec![a("check-ai", "must be fine"), a("check-ai-pattern", pat)], vec![a("check-ai", "must be fine"), a("check-ai-pattern", pat)], lines, "ai-emptykey");
    }
    push("check-ai-no-key", vec![a("check-ai", "must be fine")], vec![a("check-ai", "must be fine")], &[], "ai-nokey");
    t
}

pub fn enumerated(thorough: bool) -> Vec<Bad> {
    let mut out = vec![];
    for base in table() {
        for position in 0..3u8 {
            for neighbours in 0..4u8 {
                for extra_rules in [false, true] {
                    for mode in 0..3u8 {
                        if base.kind == "affects-no-colon" && mode != 2 {
                            continue; // only a *modified* block's affects is evaluated
                        }
                        if !thorough {
                            // quick: a covering subset of the placement grid (every value of every dimension, all pairs of position x mode)
                            let key = (position as usize * 7 + neighbours as usize * 3 + extra_rules as usize * 5 + mode as usize) % 4;
                            if key != 0 && !(neighbours == 3 && position == 2 && extra_rules) {
                                continue;
                            }
                        }
                        let mut b = base.clone();
                        b.position = position;
                        b.neighbours = neighbours;
                        b.extra_rules = extra_rules;
                        b.mode = mode;
                        out.push(b);
                    }
                }
            }
        }
        // the same malformation next to a healthy scripted block (synchronous and asynchronous validators in one run)
        if base.special.is_empty() {
            for (k, mode) in [(0u8, 0u8), (2, 1), (1, 2)] {
                if base.kind == "affects-no-colon" && mode != 2 {
                    continue;
                }
                let mut b = base.clone();
                b.with_async = true;
                b.position = k;
                b.neighbours = k % 2;
                b.mode = mode;
                out.push(b);
            }
        }
        // a malformed SCRIPT behind a healthy scripted block of the same file (whatever the first script left behind
        // - a Lua state, a cached verdict - must not stand in for the second one)
        if base.kind == "check-lua-script" {
            for (k, mode) in [(0u8, 0u8), (2, 1), (1, 2)] {
                let mut b = base.clone();
                b.with_async = true;
                b.position = k;
                b.neighbours = k % 2;
                b.mode = mode;
                out.push(b);
            }
        }
        // the same malformation on a block written on one source line (kinds whose verdict does not depend
        // on the content having several lines)
        let k = base.kind.as_str();
        if matches!(k, "sort-direction" | "sort-format" | "line-count" | "check-lua-script") || k.starts_with("regex:") {
            for mode in 0..3u8 {
                let mut b = base.clone();
                b.inline = true;
                b.position = 1;
                b.neighbours = if mode == 1 { 3 } else { 0 };
                b.mode = mode;
                out.push(b);
            }
        }
    }
    out
}

fn healthy_block(name: &str) -> RuleBlock {
    RuleBlock {
        attrs: vec![a("name", name), a("keep-sorted", "asc"), ("keep-unique".into(), None), a("line-count", "<5")],
        lines: vec!["a".into(), "b".into(), "c".into()],
        indent: 0,
    }
}

struct Outcome {
    out: Out,
    requests: usize,
}

fn run_tree(b: &Bad, control: bool, probe: &Probe) -> (String, Outcome) {
    let mut attrs = vec![a("name", "subject")];
    attrs.extend(if control { b.control_attrs.clone() } else { b.attrs.clone() });
    if b.extra_rules {
        for (k, v) in [("line-count", Some("<50")), ("line-pattern", Some("."))] {
            if !attrs.iter().any(|(n, _)| n == k) {
                attrs.push((k.to_string(), v.map(String::from)));
            }
        }
    }
    let subject = RuleBlock { attrs, lines: b.lines.clone(), indent: 0 };
    let mut blocks = vec![healthy_block("h1"), healthy_block("h2")];
    // (a malformed script comes BEHIND the healthy scripted block, everything else in front of it)
    let scripted_first = b.with_async && b.kind == "check-lua-script";
    if b.with_async {
        let scripted = RuleBlock { attrs: vec![a("name", "scripted"), a("check-lua", "nil.lua")], lines: vec!["a".into()], indent: 0 };
        if scripted_first {
            blocks.insert(0, scripted);
        } else {
            blocks.push(scripted);
        }
    }
    let subject_file = if b.inline { "m_subject.js" } else { "m_subject.sh" };
    let mut r = if b.inline {
        render_batch(Host::Js, &blocks)
    } else {
        blocks.insert(b.position as usize + scripted_first as usize, subject.clone());
        render_batch(Host::Sh, &blocks)
    };
    if b.inline {
        let mut tag = String::from("<block");
        for (k, v) in &subject.attrs {
            tag.push(' ');
            tag.push_str(k);
            if let Some(v) = v {
                tag.push('=');
                tag.push_str(&crate::rules::quote_attr(v));
            }
        }
        tag.push('>');
        r.text.push_str(&format!("/* {tag} */ {} /* </block> */\nlet after_subject = 1;\n", b.lines.join("")));
    }
    let sb = if b.mode == 2 { Sandbox::new() } else { Sandbox::with_fake_git() };
    sb.write("nil.lua", super::c11::NIL_LUA.as_bytes());
    sb.write("echo.lua", super::c11::ECHO_LUA.as_bytes());
    sb.write("bad.lua", b"function validate(ctx, c) return nil end -- \xff\xfe\n");
    sb.write("empty.lua", b"");
    sb.write("scripts/keep.txt", b"x\n");
    if b.mode == 2 {
        sb.init_repo();
        sb.commit_all("base");
    }
    let mut paths = vec![];
    if b.neighbours & 1 != 0 {
        sb.write("a_ok.sh", render_batch(Host::Sh, &[healthy_block("n1")]).text.as_bytes());
        paths.push("a_ok.sh");
    }
    sb.write(subject_file, r.text.as_bytes());
    paths.push(subject_file);
    if b.neighbours & 2 != 0 {
        sb.write("z_ok.sh", render_batch(Host::Sh, &[healthy_block("n2")]).text.as_bytes());
        paths.push("z_ok.sh");
    }
    let fake = if b.special.starts_with("ai") { Some(FakeAi::start(|_, req| if req.user_message().unwrap_or_default().contains("BAD") { Reply::Text("objection".into()) } else { Reply::Text("OK".into()) })) } else { None };
    let mut run = match b.mode {
        0 => BwRun::scan(&paths),
        1 => BwRun::scan(&[]),
        _ => {
            sb.git_ok(&["add", "-A"]);
            let d = sb.git_diff(&["--cached"]);
            BwRun::diff(&[], d.as_bytes())
        }
    };
    if let Some(f) = &fake {
        run = run.env("BLOCKWATCH_AI_API_URL", &f.url()).env("BLOCKWATCH_AI_MODEL", "m");
        // the OpenAI SDK's own variables must not stand in for a missing BLOCKWATCH_AI_API_KEY
        run = run.env("OPENAI_API_KEY", "sk-ambient-foreign");
        match (b.special.as_str(), control) {
            ("ai-nokey", false) => {}
            ("ai-emptykey", false) => run = run.env("BLOCKWATCH_AI_API_KEY", ""),
            _ => run = run.env("BLOCKWATCH_AI_API_KEY", "k"),
        }
    }
    run.timeout_s = Some(60);
    probe.child();
    let out = sb.bw(&run);
    let requests = fake.as_ref().map(|f| f.seen().len()).unwrap_or(0);
    (r.text, Outcome { out, requests })
}

pub fn check(b: &Bad, probe: &Probe) -> Verdict {
    probe.class(&format!("kind:{}", b.kind.split(':').next().unwrap()));
    probe.class(["mode:scan-paths", "mode:scan-interactive", "mode:diff"][b.mode as usize]);
    if b.position != 0 || b.neighbours != 0 || b.extra_rules {
        probe.nontrivial();
    }
    let (text, bad) = run_tree(b, false, probe);
    probe.sample(|| json!({"case": b, "subject_file": crate::cli::trunc(&text, 500), "exit": bad.out.code, "stderr": crate::cli::trunc(&bad.out.stderr, 200)}));
    let show = |what: &str, o: &Out| format!("C13 [{}]: {what}\ncase: {b:?}\n--- m_subject.sh ---\n{text}\n--- observed ---\n{}", b.kind, o.brief());
    if bad.out.timed_out {
        return Verdict::Fail(show("run with the malformed rule timed out", &bad.out));
    }
    if bad.out.panicked() {
        return Verdict::Fail(show("crash instead of an explanatory error", &bad.out));
    }
    if bad.out.code == Some(0) {
        return Verdict::Fail(show("malformed rule silently treated as passing (exit 0)", &bad.out));
    }
    if bad.out.stderr.trim().is_empty() {
        return Verdict::Fail(show("non-zero exit without any explanatory error", &bad.out));
    }
    if parse_diags(&bad.out.stderr).is_ok() {
        return Verdict::Fail(show("stderr is an ordinary diagnostics report, not an error about the malformed rule", &bad.out));
    }
    // control: the same tree with the malformation repaired is processed normally
    let (ctext, ctl) = run_tree(b, true, probe);
    let report_ok = parse_diags(&ctl.out.stderr).is_ok();
    let want = if b.kind == "severity" { Some(1) } else { Some(0) };
    if ctl.out.code != want || !report_ok || ctl.out.panicked() {
        // the error would then not be caused by the malformation: harness domain problem, not a violation
        return Verdict::Fail(format!("C13 [{}]: HARNESS control run is not healthy (expected exit {want:?} with a plain report)\n--- m_subject.sh ---\n{ctext}\n{}", b.kind, ctl.out.brief()));
    }
    let _ = bad.requests;
    Verdict::Pass
}

pub fn run(run: &mut Run) {
    run.rule = "enumerated: a table of malformations judged invalid by the statement (sort direction, sort format, non-numeric keys (8 hand-picked blocks and every 1-, 2- and 3-line block over {1, 2, x, n/a, blank} in which a non-numeric key is reached before an out-of-order pair, incl. identical neighbours and blocks with a single key), 7 uncompilable regexes x 5 regex-bearing attributes on blocks with content, 15 bad line-count expressions, colon-less affects on a modified block, unknown severity on a violating block of every rule kind (keep-sorted, keep-unique, line-pattern, line-count, check-lua, check-ai), empty/missing/directory/invalid-UTF-8/empty-file Lua scripts, empty AI condition, missing/empty API key - also with a check-ai-pattern that extracts nothing or something, and on a block without content) x placement (first/middle/last block; healthy file before/after/both; other satisfied rules on the block) x mode (scan with paths, interactive scan, new-file diff); the sort-direction / sort-format / regex / line-count / Lua-script malformations also on a block written on ONE source line of a JavaScript file (content without a second physical line); every script-free malformation also next to a healthy check-lua block (synchronous and asynchronous validators joined in one run), every malformed script also BEHIND a healthy scripted block of the same file; each with a control run (malformation repaired) that must be healthy. Non-trivial = the malformed block is not alone/first. Quick runs a covering subset of the placement grid, thorough the full product.".into();
    run.assumptions = vec!["valid spellings are never expected to fail: every table entry is invalid by the statement's own wording".into()];
    let thorough = run.tier == crate::engine::Tier::Thorough;
    let items = enumerated(thorough);
    run.enumerate("table", items, Some(if thorough { "malformation table x full placement grid" } else { "malformation table x covering placement subset" }), check);
}
