//! C02 — diff mode validates exactly the touched blocks, with full-scan verdicts.
use crate::cli::{BwRun, Out, Sandbox};
use crate::engine::{Probe, Run, Verdict};
use crate::gitcase::{self, DiffMode, StatePair};
use crate::known;
use crate::report::{Diag, parse_diags, parse_listing};
use proptest::prelude::*;
use serde::{Deserialize, Serialize};
use serde_json::json;
use std::collections::BTreeMap;

pub const INSIDE: u8 = 1;
pub const TAG: u8 = 2;
pub const ENDTAG: u8 = 4;

#[derive(Clone, Debug, Serialize, Deserialize, Hash, PartialEq, Eq)]
pub struct TBlock {
    /// rule attributes as written (name is added by the renderer)
    pub rules: Vec<(String, Option<String>)>,
    pub lines: Vec<String>,
    /// bit set of INSIDE | TAG | ENDTAG
    pub classes: u8,
    /// INSIDE flavour: 0 replace a line, 1 insert a line, 2 delete a line (pure deletion in the middle),
    /// 3 the line is blanked: its text is replaced by an EMPTY line
    pub inside_kind: u8,
    pub inside_at: u8,
    /// TAG flavour: 0 substitute a character of an attribute value, 1 insert a character, 2 append an attribute,
    /// 3 the last attribute's value, 4 delete a second `>` at the tag's end, 5 delete an attribute
    pub tag_kind: u8,
    /// ENDTAG flavour: 0 edit text after `</block>` in its comment, 1 whitespace inside `</ block >`
    pub end_kind: u8,
    /// 0 own-line line comments, 1 own-line block comments, 2 everything on one line, 3 own-line block comments
    /// with a start tag spread over three lines (hosts with block comments)
    pub layout: u8,
    /// multi-byte text inside the tag's comment before the tag
    pub multibyte: bool,
}

#[derive(Clone, Debug, Serialize, Deserialize, Hash, PartialEq, Eq)]
pub struct TFile {
    /// 0 js, 1 sh, 2 rs, 3 py, 4 c
    pub host: u8,
    pub blocks: Vec<TBlock>,
    /// bit i set: the padding before block i gets an edit (outside every block)
    pub outside: u8,
    /// how the file ends: 0 padding, newline in both states; 1 padding, only the new state ends with a newline;
    /// 2 ends at the last end tag, only the new state ends with a newline (the end-tag line is "changed" by git);
    /// 3 ends at the last end tag, no newline in either state; 4 ends at the last end tag, only the old state
    /// ends with a newline; 5 padding, only the old state ends with a newline
    #[serde(default)]
    pub tail: u8,
    /// bit i set (together with bit i of `outside`): the outside edit in front of block i is a PURE DELETION of a
    /// line directly above the block's first tag-comment line (code outside the block), not a replaced padding line
    #[serde(default)]
    pub outside_del: u8,
}

#[derive(Clone, Debug, Serialize, Deserialize, Hash, PartialEq, Eq)]
pub struct TouchCase {
    pub files: Vec<TFile>,
    pub unified: u8,
    /// bit i set: file i is also passed as a path argument (0 = no path arguments)
    pub globs: u8,
}

struct Host {
    ext: &'static str,
    line: &'static str,
    block: Option<(&'static str, &'static str)>,
    pad: &'static str,
}

const HOSTS: &[Host] = &[
    Host { ext: "js", line: "//", block: Some(("/*", "*/")), pad: "let p{n} = {n};" },
    Host { ext: "sh", line: "#", block: None, pad: "p{n}={n}" },
    Host { ext: "rs", line: "//", block: Some(("/*", "*/")), pad: "const P{n}: u32 = {n};" },
    Host { ext: "py", line: "#", block: None, pad: "p{n} = {n}" },
    Host { ext: "c", line: "//", block: Some(("/*", "*/")), pad: "int p{n} = {n};" },
];

#[derive(Clone, Debug)]
pub struct Extent {
    pub name: String,
    pub tag_line: usize,
    pub end_line: usize,
    pub selected: bool,
    pub content_modified: bool,
    /// the only edit deletes a character right behind the tag's `>` that equals it: whether the tag itself is
    /// "touched" is not decidable from the two texts, so selection is taken as observed (never a content change)
    pub either: bool,
    /// a line directly above this block's start-tag line was deleted (and nothing else moved lines before):
    /// K9 shape
    pub deleted_above: bool,
}

pub struct RenderedFile {
    pub path: String,
    pub new: String,
    pub old: String,
    pub extents: Vec<Extent>,
    pub k1_excluded: usize,
}

fn tag_text(name: &str, rules: &[(String, Option<String>)], v: &str, extra: bool, multibyte: bool) -> String {
    tag_text_long(name, rules, v, extra, multibyte, false)
}

/// `long`: an attribute of 600 bytes in front of the edited one (a tag line far beyond any "short line" shortcut)
fn tag_text_long(name: &str, rules: &[(String, Option<String>)], v: &str, extra: bool, multibyte: bool, long: bool) -> String {
    // multi-byte text INSIDE the tag, before the attribute that gets edited: byte and character columns differ
    let mut s = format!("<block name=\"{name}\"{} data-v=\"{v}\"", if multibyte { " data-u=\"список 日本\"" } else { "" });
    if long {
        s.push_str(&format!(" data-long=\"{}\"", "x".repeat(600)));
    }
    for (k, val) in rules {
        s.push(' ');
        s.push_str(k);
        if let Some(val) = val {
            s.push('=');
            s.push_str(&crate::rules::quote_attr(val));
        }
    }
    if extra {
        s.push_str(" data-w=\"n\"");
    }
    s.push('>');
    s
}

pub fn render_file(fi: usize, f: &TFile) -> RenderedFile {
    let h = &HOSTS[f.host as usize % HOSTS.len()];
    let path = format!("t{fi}.{}", h.ext);
    let mut new: Vec<String> = vec![];
    let mut old: Vec<String> = vec![];
    let mut extents = vec![];
    let mut n = 0usize;
    let mut shifted = false; // a net line shift exists so far in this file (K1 exclusion)
    let mut k1_excluded = 0;
    let mut pad = |new: &mut Vec<String>, old: &mut Vec<String>, edit: bool| {
        for k in 0..5 {
            n += 1;
            let l = h.pad.replace("{n}", &n.to_string());
            if edit && k == 2 {
                old.push(format!("{l} // was"));
            } else {
                old.push(l.clone());
            }
            new.push(l);
        }
    };
    for (bi, b) in f.blocks.iter().enumerate() {
        let want_del_above = f.outside & f.outside_del & (1 << bi) != 0;
        let del_above = want_del_above && !shifted;
        if want_del_above && shifted {
            k1_excluded += 1;
        }
        pad(&mut new, &mut old, f.outside & (1 << bi) != 0 && !del_above);
        if del_above {
            old.push("removed_line_above_the_block();".to_string());
            shifted = true;
        }
        let name = format!("f{fi}b{bi}");
        // layout 4: both tags inside ONE multi-line block comment, the start tag below its first line (no content);
        // layout 5: the block is nested in an untouched outer block whose start tag shares a comment with this one's
        let layout = if h.block.is_none() { 0 } else { b.layout % 6 };
        let mut classes = b.classes & 7;
        if b.lines.is_empty() || layout == 4 {
            classes &= !INSIDE;
        }
        let inside_kind = if classes & INSIDE != 0 {
            let mut k = b.inside_kind % 5;
            // a pure deletion must stay a pure deletion (no other edit of this block, >= 2 lines) and needs no earlier shift (K1)
            if k == 2 && (classes != INSIDE || b.lines.len() < 2 || layout == 2) {
                k = 0;
            }
            if k == 2 && shifted {
                k1_excluded += 1;
                k = 0;
            }
            if layout == 2 {
                k = 0;
            }
            k
        } else {
            0
        };
        let mb = if b.multibyte { "é日本 😀 " } else { "" };
        let (open, close) = match layout {
            0 => (format!("{} ", h.line), String::new()),
            _ => {
                let (o, c) = h.block.unwrap();
                (format!("{o} "), format!(" {c}"))
            }
        };
        // one tag in seven carries a 600-byte attribute
        let long_tag = b.inside_at % 7 == 3;
        // start tag line(s): new vs old
        let tag_new = tag_text_long(&name, &b.rules, "1Q", true, b.multibyte, long_tag);
        let tag_old = if classes & TAG != 0 {
            match b.tag_kind % 6 {
                0 => tag_text_long(&name, &b.rules, "1R", true, b.multibyte, long_tag),
                1 => tag_text_long(&name, &b.rules, "1", true, b.multibyte, long_tag),
                2 => tag_text_long(&name, &b.rules, "1Q", false, b.multibyte, long_tag),
                // a deletion at the very end of the tag: the old line had `>>` (a character diff cannot tell which
                // `>` went; when the tag ends its line, the deletion sits at the line's tail)
                4 => format!("{tag_new}>"),
                // a deletion inside the tag: the old tag had one more attribute
                5 => tag_new.replace(" data-w=\"n\"", " data-w=\"n\" data-z"),
                // the value of the LAST attribute: the edited byte sits two bytes before the tag's `>`
                _ => tag_new.replace("data-w=\"n\"", "data-w=\"m\""),
            }
        } else {
            tag_new.clone()
        };
        let (end_new, end_old) = if classes & ENDTAG != 0 {
            match b.end_kind % 2 {
                0 => ("</block> tail".to_string(), "</block> tael".to_string()),
                _ => ("</ block >".to_string(), "</block>".to_string()),
            }
        } else {
            ("</block> tail".to_string(), "</block> tail".to_string())
        };
        let mut tag_line = new.len() + 1;
        if layout == 4 {
            let (o, c) = h.block.unwrap();
            tag_line += 1;
            // what follows the tags inside the comment: 0 its closer, 1 an untouched remark line, 2 the comment grew
            // by a line that now carries the closer, 3 its last remark line went away (edits of comment text
            // behind both tags: they touch neither tag nor content)
            let mut tail_kind = b.inside_at % 4;
            if tail_kind == 3 && shifted {
                k1_excluded += 1;
                tail_kind = 1;
            }
            for (is_new, v, tag, end) in [(true, &mut new, &tag_new, &end_new), (false, &mut old, &tag_old, &end_old)] {
                v.push(o.to_string());
                v.push(format!("   {mb}{tag}"));
                v.push(format!("   {end}"));
                match tail_kind {
                    0 => v.push(format!(" {c}")),
                    1 => {
                        v.push("   a remark behind the tags".to_string());
                        v.push(format!(" {c}"));
                    }
                    2 => {
                        if is_new {
                            v.push("   a remark behind the tags".to_string());
                            v.push(format!("   one more remark {c}"));
                        } else {
                            v.push(format!("   a remark behind the tags {c}"));
                        }
                    }
                    _ => {
                        v.push("   a remark behind the tags".to_string());
                        if !is_new {
                            v.push("   a remark that went away".to_string());
                        }
                        v.push(format!(" {c}"));
                    }
                }
            }
            if tail_kind >= 2 {
                shifted = true;
            }
        } else if layout == 2 {
            // everything on one line; content is the single first line (or empty)
            let c_new = b.lines.first().cloned().unwrap_or_default();
            let c_old = if classes & INSIDE != 0 { format!("{c_new}_o") } else { c_new.clone() };
            new.push(format!("{open}{mb}{tag_new}{close} {c_new} {open}{end_new}{close}"));
            old.push(format!("{open}{mb}{tag_old}{close} {c_old} {open}{end_old}{close}"));
        } else {
            if layout == 3 {
                // `<block name="…"` / `data-v="…"` / rest — the edited attribute sits on the tag's middle line
                let split = |t: &str| -> Vec<String> {
                    let a = t.find(" data-v=").unwrap();
                    let b = a + 1 + t[a + 1..].find(' ').map(|x| x).unwrap_or(t.len() - a - 2);
                    vec![t[..a].to_string(), t[a + 1..b].to_string(), t[b..].trim_start().to_string()]
                };
                let (n3, o3) = (split(&tag_new), split(&tag_old));
                new.push(format!("{open}{mb}{}", n3[0]));
                old.push(format!("{open}{mb}{}", o3[0]));
                new.push(format!("     {}", n3[1]));
                old.push(format!("     {}", o3[1]));
                new.push(format!("     {}{close}", n3[2]));
                old.push(format!("     {}{close}", o3[2]));
            } else if layout == 5 {
                let (o, c) = h.block.unwrap();
                tag_line += 1;
                for (v, tag) in [(&mut new, &tag_new), (&mut old, &tag_old)] {
                    v.push(format!("{o} <block name=\"{name}-outer\" data-v=\"9\">"));
                    v.push(format!("   {mb}{tag} {c}"));
                }
            } else {
                new.push(format!("{open}{mb}{tag_new}{close}"));
                old.push(format!("{open}{mb}{tag_old}{close}"));
            }
            let at = if b.lines.is_empty() { 0 } else { b.inside_at as usize % b.lines.len() };
            for (k, l) in b.lines.iter().enumerate() {
                if classes & INSIDE != 0 && k == at {
                    match inside_kind {
                        0 => {
                            new.push(l.clone());
                            old.push(format!("{l}_o"));
                        }
                        1 => {
                            new.push(l.clone());
                            shifted = true;
                        }
                        3 => {
                            // the new state has an empty line where the old state had text
                            new.push(String::new());
                            old.push(l.clone());
                        }
                        4 => {
                            // the old state had two blanks at the end of the line: an edit of trailing white space only
                            new.push(l.clone());
                            old.push(format!("{l}  "));
                        }
                        _ => {
                            // deletion between line k-1 and k (k >= 1 guaranteed below)
                            new.push(l.clone());
                            old.push(l.clone());
                        }
                    }
                } else {
                    new.push(l.clone());
                    old.push(l.clone());
                }
                if classes & INSIDE != 0 && inside_kind == 2 && k == at.min(b.lines.len() - 2) {
                    old.push("removed_content_line".to_string());
                    shifted = true;
                }
            }
            new.push(format!("{open}{end_new}{close}"));
            old.push(format!("{open}{end_old}{close}"));
        }
        let end_line = new.len();
        let outer_name = format!("{name}-outer");
        // (the deleted line sat directly above the start TAG's line only where the tag opens its comment's first line)
        let tag_directly_below = del_above && !matches!(layout, 4 | 5);
        extents.push(Extent { name, tag_line, end_line, selected: classes & (INSIDE | TAG) != 0, content_modified: classes & INSIDE != 0, either: classes & (INSIDE | TAG) == TAG && b.tag_kind % 6 == 4, deleted_above: tag_directly_below });
        if layout == 5 {
            // the outer block: its content (everything after the shared comment) holds the inner block's content
            // and end-tag line; the inner start tag is comment text, not content
            for v in [&mut new, &mut old] {
                v.push(format!("{open}</block>{close}"));
            }
            let touched = classes & (INSIDE | ENDTAG) != 0;
            extents.push(Extent { name: outer_name, tag_line: tag_line - 1, end_line: new.len(), selected: touched, content_modified: touched, either: false, deleted_above: del_above });
        }
    }
    // a file that ends in a one-line block keeps its padding: a newline-only change of that line would touch tag and content at once
    let last_one_line = f.blocks.last().is_some_and(|b| h.block.is_some() && matches!(b.layout % 6, 2 | 4 | 5));
    let tail = match f.tail % 6 {
        2 if last_one_line => 1,
        3 if last_one_line => 0,
        4 if last_one_line => 5,
        t => t,
    };
    if !matches!(tail, 2 | 3 | 4) {
        pad(&mut new, &mut old, f.outside & 0x80 != 0);
    }
    let (old_nl, new_nl) = match tail {
        0 => (true, true),
        1 | 2 => (false, true),
        3 => (false, false),
        _ => (true, false),
    };
    RenderedFile { path, new: new.join("\n") + if new_nl { "\n" } else { "" }, old: old.join("\n") + if old_nl { "\n" } else { "" }, extents, k1_excluded }
}

fn in_extents<'a>(d: &Diag, files: &'a [RenderedFile]) -> Option<&'a Extent> {
    files.iter().find(|f| f.path == d.file).and_then(|f| f.extents.iter().find(|e| e.tag_line as u64 <= d.sl && d.sl <= e.end_line as u64))
}

pub fn check(c: &TouchCase, probe: &Probe) -> Verdict {
    let mut files: Vec<RenderedFile> = c.files.iter().enumerate().map(|(i, f)| render_file(i, f)).collect();
    let sb = Sandbox::new();
    sb.write("echo.lua", super::c11::ECHO_LUA.as_bytes());
    sb.write("nil.lua", super::c11::NIL_LUA.as_bytes());
    let mut pair = StatePair { files: files.iter().map(|f| (f.path.clone(), Some(f.old.clone()), Some(f.new.clone()), None)).collect() };
    if c.unified % 3 == 1 {
        // the diff also deletes a file (its entry comes first) and empties another one
        pair.files.push(("a_gone.py".into(), Some("# <block name=\"gone\" keep-sorted>\nb\na\n# </block>\n".into()), None, None));
        pair.files.push(("b_emptied.py".into(), Some("x = 1\n".into()), Some(String::new()), None));
        probe.class("diff-with-a-deleted-and-an-emptied-file");
    }
    // the scripts are part of the old commit: write them before make_diff commits
    let mode = DiffMode { unified: c.unified % 11, kind: 0, algo: 0, renames: false };
    let diff = gitcase::make_diff(&sb, &pair, &mode);
    // (a) selection
    probe.child();
    let lo = sb.bw(&BwRun::diff(&["list"], diff.as_bytes()));
    let listing = parse_listing(&lo.stdout);
    if let Ok(l) = &listing {
        for f in files.iter_mut() {
            for e in f.extents.iter_mut().filter(|e| e.either) {
                e.selected = l.iter().any(|x| x.file == f.path && x.name == e.name);
                probe.class("tag-edit:deletion-right-behind-the-tag(selection as observed)");
            }
        }
    }
    let show = |what: &str, o: &Out| {
        let fs: Vec<String> = files.iter().map(|f| format!("--- {} (new) ---\n{}\n    blocks: {:?}", f.path, f.new, f.extents)).collect();
        format!("C02: {what}\n{}\n--- git diff -U{} ---\n{}\n--- observed ---\n{}", fs.join("\n"), c.unified % 11, crate::cli::trunc(&diff, 5000), o.brief())
    };
    let all_ext: Vec<&Extent> = files.iter().flat_map(|f| f.extents.iter()).collect();
    probe.class_n("blocks:selected", all_ext.iter().filter(|e| e.selected).count() as u64);
    probe.class_n("blocks:tag-only", all_ext.iter().filter(|e| e.selected && !e.content_modified).count() as u64);
    probe.class_n("blocks:not-selected", all_ext.iter().filter(|e| !e.selected).count() as u64);
    probe.class_n("outside-edit:line-deleted-directly-above-a-start-tag(K9 shape)", all_ext.iter().filter(|e| e.deleted_above).count() as u64);
    probe.class_n("excluded-by-construction:deletion-after-shift(K1)", files.iter().map(|f| f.k1_excluded as u64).sum());

    if lo.timed_out || lo.panicked() || lo.code != Some(0) {
        return Verdict::Fail(show("`list` in diff mode failed", &lo));
    }
    let listing = match listing {
        Ok(l) => l,
        Err(e) => return Verdict::Fail(show(&e, &lo)),
    };
    let got: BTreeMap<(String, String), bool> = listing.iter().map(|l| ((l.file.clone(), l.name.clone()), l.modified)).collect();
    let want: BTreeMap<(String, String), bool> = files.iter().flat_map(|f| f.extents.iter().filter(|e| e.selected).map(|e| ((f.path.clone(), e.name.clone()), e.content_modified))).collect();
    if got != want {
        // K9: a pure deletion directly above a start-tag line is recorded on the tag's line as a whole-line change
        // (the block is selected; its content counts as modified when the tag's comment ends on that line)
        let k9_blocks: Vec<(String, String)> = files.iter().flat_map(|f| f.extents.iter().filter(|e| e.deleted_above).map(|e| (f.path.clone(), e.name.clone()))).collect();
        let differing: Vec<&(String, String)> = want.keys().chain(got.keys()).filter(|k| want.get(*k) != got.get(*k)).collect();
        if !differing.is_empty() && differing.iter().all(|k| k9_blocks.contains(k) && got.contains_key(*k) && (!want.contains_key(*k) || (want.get(*k) == Some(&false) && got.get(*k) == Some(&true)))) && known::listed("K9") {
            probe.class("known:K9");
            return Verdict::Known("K9");
        }
        let missing: Vec<_> = want.iter().filter(|(k, v)| got.get(*k) != Some(v)).collect();
        let extra: Vec<_> = got.iter().filter(|(k, v)| want.get(*k) != Some(v)).collect();
        return Verdict::Fail(show(&format!("selection differs. expected (block -> is_content_modified) but not observed so: {missing:?}; observed but not expected so: {extra:?}"), &lo));
    }

    // (b) verdict equivalence with the full scan
    let paths: Vec<&str> = files.iter().map(|f| f.path.as_str()).collect();
    probe.child();
    let full = sb.bw(&BwRun::scan(&paths));
    if full.timed_out || full.panicked() {
        return Verdict::Fail(show("full scan crashed", &full));
    }
    let d_full = match parse_diags(&full.stderr) {
        Ok(d) => d,
        Err(e) => return Verdict::Fail(show(&format!("full scan: {e}"), &full)),
    };
    probe.child();
    let dr = sb.bw(&BwRun::diff(&[], diff.as_bytes()));
    if dr.timed_out || dr.panicked() {
        return Verdict::Fail(show("diff run crashed", &dr));
    }
    let d_diff = match parse_diags(&dr.stderr) {
        Ok(d) => d,
        Err(e) => return Verdict::Fail(show(&format!("diff run: {e}"), &dr)),
    };
    let mut want_diff: Vec<&Diag> = d_full.iter().filter(|d| in_extents(d, &files).is_some_and(|e| e.selected)).collect();
    want_diff.sort();
    let mut got_diff: Vec<&Diag> = d_diff.iter().collect();
    got_diff.sort();
    if want_diff != got_diff {
        let missed: Vec<_> = want_diff.iter().filter(|d| !got_diff.contains(d)).collect();
        let extra: Vec<_> = got_diff.iter().filter(|d| !want_diff.contains(d)).collect();
        return Verdict::Fail(show(&format!("diff-mode diagnostics differ from the full scan restricted to the touched blocks. missed: {missed:?}; reported although untouched or different: {extra:?}"), &dr));
    }
    let want_exit = if want_diff.iter().any(|d| d.severity == 1) { 1 } else { 0 };
    if dr.code != Some(want_exit) {
        return Verdict::Fail(show(&format!("diff run exit {:?}, expected {want_exit}", dr.code), &dr));
    }
    let violating_untouched = d_full.iter().any(|d| in_extents(d, &files).is_some_and(|e| !e.selected));
    let violating_selected = !want_diff.is_empty();
    let tag_only = all_ext.iter().any(|e| e.selected && !e.content_modified);
    if violating_untouched && violating_selected && tag_only {
        probe.nontrivial();
    }
    probe.sample(|| json!({"files": files.iter().map(|f| json!({"path": f.path, "blocks": f.extents.iter().map(|e| format!("{} lines {}-{} selected={} content_modified={}", e.name, e.tag_line, e.end_line, e.selected, e.content_modified)).collect::<Vec<_>>()})).collect::<Vec<_>>(), "diff": crate::cli::trunc(&diff, 600), "full_scan_diagnostics": d_full.len(), "diff_mode_diagnostics": d_diff.len()}));

    // (c) path arguments additionally validate every block of the matching files
    let g = c.globs & ((1u8 << files.len().min(7)) - 1);
    if g != 0 {
        let gpaths: Vec<&str> = files.iter().enumerate().filter(|(i, _)| g & (1 << i) != 0).map(|(_, f)| f.path.as_str()).collect();
        probe.child();
        let gr = sb.bw(&BwRun::diff(&gpaths, diff.as_bytes()));
        if gr.timed_out || gr.panicked() {
            return Verdict::Fail(show("diff run with path arguments crashed", &gr));
        }
        let d_g = match parse_diags(&gr.stderr) {
            Ok(d) => d,
            Err(e) => return Verdict::Fail(show(&format!("diff run with path arguments: {e}"), &gr)),
        };
        let mut want_g: Vec<&Diag> = d_full.iter().filter(|d| gpaths.contains(&d.file.as_str())).chain(d_diff.iter().filter(|d| !gpaths.contains(&d.file.as_str()))).collect();
        want_g.sort();
        let mut got_g: Vec<&Diag> = d_g.iter().collect();
        got_g.sort();
        if want_g != got_g {
            return Verdict::Fail(show(&format!("with path arguments {gpaths:?}: diagnostics differ from (full scan of those files) + (diff-mode result of the others). expected {want_g:?}; observed {got_g:?}"), &gr));
        }
        // the listing with path arguments: every block of the matching files (flags by edit class), the selected ones of the others
        probe.child();
        let mut la: Vec<&str> = vec!["list"];
        la.extend(gpaths.iter());
        let gl = sb.bw(&BwRun::diff(&la, diff.as_bytes()));
        if gl.timed_out || gl.panicked() || gl.code != Some(0) {
            return Verdict::Fail(show("`list` with path arguments in diff mode failed", &gl));
        }
        let glist = match parse_listing(&gl.stdout) {
            Ok(l) => l,
            Err(e) => return Verdict::Fail(show(&e, &gl)),
        };
        let got_l: BTreeMap<(String, String), bool> = glist.iter().map(|l| ((l.file.clone(), l.name.clone()), l.modified)).collect();
        let want_l: BTreeMap<(String, String), bool> = files
            .iter()
            .flat_map(|f| {
                let all = gpaths.contains(&f.path.as_str());
                f.extents.iter().filter(move |e| all || e.selected).map(|e| ((f.path.clone(), e.name.clone()), e.content_modified))
            })
            .collect();
        if got_l != want_l {
            return Verdict::Fail(show(&format!("`list` with path arguments {gpaths:?}: expected (block -> is_content_modified) {want_l:?}; observed {got_l:?}"), &gl));
        }
        probe.class("with-path-arguments");
    }
    Verdict::Pass
}

const LINES: &[&str] = &["a", "b", "ab", "x1", "xy", "  a", "B", "b  ", "zz top", "m"];

pub fn block_strategy() -> BoxedStrategy<TBlock> {
    let rule = prop_oneof![
        prop_oneof![Just("asc"), Just("desc")].prop_map(|d| ("keep-sorted".to_string(), Some(d.to_string()))),
        Just(("keep-unique".to_string(), None)),
        (0..crate::models::LINE_PATS.len()).prop_map(|i| ("line-pattern".to_string(), Some(crate::models::LINE_PATS[i].re.to_string()))),
        (0usize..5, 0u64..5).prop_map(|(o, n)| ("line-count".to_string(), Some(format!("{}{n}", crate::models::Op::ALL[o].text())))),
        any::<bool>().prop_map(|e| ("check-lua".to_string(), Some(if e { "echo.lua".to_string() } else { "nil.lua".to_string() }))),
    ];
    (
        proptest::collection::vec(rule, 0..3),
        proptest::collection::vec(0..LINES.len(), 0..6),
        prop_oneof![3 => Just(0u8), 3 => Just(INSIDE), 3 => Just(TAG), 2 => Just(ENDTAG), 2 => 0u8..8],
        0u8..5,
        any::<u8>(),
        0u8..6,
        0u8..2,
        prop_oneof![3 => Just(0u8), 1 => Just(1u8), 1 => Just(2u8), 1 => Just(3u8), 1 => Just(4u8), 1 => Just(5u8)],
        proptest::bool::weighted(0.25),
    )
        .prop_map(|(mut rules, ls, classes, inside_kind, inside_at, tag_kind, end_kind, layout, multibyte)| {
            rules.sort();
            rules.dedup_by(|a, b| a.0 == b.0);
            TBlock { rules, lines: ls.into_iter().map(|i| LINES[i].to_string()).collect(), classes, inside_kind, inside_at, tag_kind, end_kind, layout, multibyte }
        })
        .boxed()
}

pub fn case_strategy() -> BoxedStrategy<TouchCase> {
    let file = (0u8..5, proptest::collection::vec(block_strategy(), 2..8), any::<u8>(), prop_oneof![3 => Just(0u8), 3 => 1u8..6], prop_oneof![3 => Just(0u8), 2 => any::<u8>()]).prop_map(|(host, blocks, outside, tail, outside_del)| TFile { host, blocks, outside, tail, outside_del });
    (proptest::collection::vec(file, 1..4), 0u8..11, prop_oneof![2 => Just(0u8), 1 => 1u8..8]).prop_map(|(files, unified, globs)| TouchCase { files, unified, globs }).boxed()
}

// ------------------------------------------------------------------------------------------------
// Position sweep over an inline layout: every byte of the safe regions x {substitute, insert, delete}
// ------------------------------------------------------------------------------------------------

#[derive(Clone, Debug, Serialize, Deserialize, Hash, PartialEq, Eq)]
pub struct SweepCase {
    pub template: u8,
    /// byte offset in the line (a char boundary inside a safe region)
    pub pos: usize,
    /// 0 substitute the character at pos, 1 the character at pos is new (absent from the old line),
    /// 2 the old line had an extra character right before pos
    pub op: u8,
}

pub const TEMPLATES: &[&str] = &[
    "/* <block name=\"sw\" a=\"1Q\" b='2Z'> */ let x = 17; /* </block> tail */ more();",
    "/* é日本 😀 <block name=\"sw\" a=\"1Q\"> */ let é = 17; /* </block> täil */ more();",
    "  /* <block name=\"sw\" a=\"1Q\"> */ call(\"ü\", 2); /* </ block > */ after(1);",
];

#[derive(Clone, Copy, Debug, PartialEq, Eq)]
pub enum Region {
    /// text of the start tag's comment before `<block` (from the line start)
    BeforeTag,
    /// text of the start tag's comment after the tag's `>` (up to and including the closing delimiter)
    AfterTag,
    TagValue,
    Content,
    EndTail,
    After,
}

/// Regions of a template: (byte range, region). The old line is what gets edited — the new line (the one
/// blockwatch parses) is always the intact template — so every byte can be swept: the whole start tag
/// `<block …>` (tag-only), the content between the comments (inside), the whole end-tag comment from its
/// opening delimiter to its closing one (neither), the code after it (neither) and the text of the start
/// tag's comment around the tag (neither: it is not part of the tag and not content); only a deletion
/// directly adjoining the tag's `<` or `>` is left out (which neighbour a removed character "touches" is not stated).
pub fn regions(t: &str) -> Vec<(usize, usize, Region)> {
    let mut out = vec![];
    let tag_s = t.find("<block").unwrap();
    let c1 = t.find("*/").unwrap() + 2;
    let tag_e = t[..c1].rfind('>').unwrap() + 1;
    out.push((0, tag_s, Region::BeforeTag));
    out.push((tag_s, tag_e, Region::TagValue));
    out.push((tag_e, c1, Region::AfterTag));
    let c2 = t[c1..].find("/*").unwrap() + c1;
    out.push((c1, c2, Region::Content));
    let c3 = t[c2..].find("*/").unwrap() + c2 + 2;
    out.push((c2, c3, Region::EndTail));
    out.push((c3, t.len(), Region::After));
    out
}

pub fn sweep_cases() -> Vec<SweepCase> {
    let mut out = vec![];
    for (ti, t) in TEMPLATES.iter().enumerate() {
        for (s, e, _) in regions(t) {
            for pos in s..e {
                if !t.is_char_boundary(pos) {
                    continue;
                }
                for op in 0..3u8 {
                    out.push(SweepCase { template: ti as u8, pos, op });
                }
            }
            // deletion right at the end of the region (old had an extra last character)
            out.push(SweepCase { template: ti as u8, pos: e, op: 2 });
            let _ = s;
        }
    }
    out
}

pub fn check_sweep(c: &SweepCase, probe: &Probe) -> Verdict {
    let t = TEMPLATES[c.template as usize % TEMPLATES.len()];
    let regs = regions(t);
    let fresh = '§';
    let ch = t[c.pos.min(t.len())..].chars().next();
    let (old_line, region) = match c.op % 3 {
        0 => {
            let Some(ch) = ch else { return Verdict::Unspecified("no character at position") };
            let r = regs.iter().find(|(s, e, _)| *s <= c.pos && c.pos < *e).map(|r| r.2);
            (format!("{}{fresh}{}", &t[..c.pos], &t[c.pos + ch.len_utf8()..]), r)
        }
        1 => {
            let Some(ch) = ch else { return Verdict::Unspecified("no character at position") };
            // the alignment of an inserted character is only unique when it differs from both neighbours
            let prev = t[..c.pos].chars().next_back();
            let next = t[c.pos + ch.len_utf8()..].chars().next();
            if prev == Some(ch) || next == Some(ch) {
                return Verdict::Unspecified("inserted character equals a neighbour (alignment not unique)");
            }
            let r = regs.iter().find(|(s, e, _)| *s <= c.pos && c.pos < *e).map(|r| r.2);
            (format!("{}{}", &t[..c.pos], &t[c.pos + ch.len_utf8()..]), r)
        }
        _ => {
            // the removed character sat between pos-1 and pos: it belonged to the region that holds pos-1 and pos,
            // or — at a region's end — to the region ending at pos
            // the removed character sat in the gap before byte `pos`: strictly inside a region it belongs to
            // that region; between the start comment and the content, or between the content and the end
            // comment, it was content (content = everything between the two comments); between the end
            // comment and the following code it was code; next to the tag's `<` / `>` it was comment text
            // around the tag (unspecified)
            let inside = regs.iter().find(|(s, e, _)| *s < c.pos && c.pos < *e).map(|r| r.2);
            let content = regs.iter().find(|r| r.2 == Region::Content).unwrap();
            let after = regs.iter().find(|r| r.2 == Region::After).unwrap();
            let r = if inside.is_some() {
                inside
            } else if c.pos == content.0 || c.pos == content.1 {
                Some(Region::Content)
            } else if c.pos == after.0 || c.pos == after.1 {
                Some(Region::After)
            } else {
                None
            };
            (format!("{}{fresh}{}", &t[..c.pos], &t[c.pos..]), r)
        }
    };
    let Some(region) = region else { return Verdict::Unspecified("position outside the safe regions") };
    let at_region_end = regs.iter().any(|(_, e, _)| *e == c.pos);
    let new_text = format!("let before = 0;\nlet before2 = 1;\n{t}\nlet after = 2;\n");
    let old_text = format!("let before = 0;\nlet before2 = 1;\n{old_line}\nlet after = 2;\n");
    let sb = Sandbox::new();
    let pair = StatePair { files: vec![("sweep.js".into(), Some(old_text), Some(new_text), None)] };
    let diff = gitcase::make_diff(&sb, &pair, &DiffMode { unified: 0, kind: 0, algo: 0, renames: false });
    probe.child();
    let lo = sb.bw(&BwRun::diff(&["list"], diff.as_bytes()));
    if lo.timed_out || lo.panicked() || lo.code != Some(0) {
        return Verdict::Fail(format!("C02 sweep: `list` failed\n{diff}\n{}", lo.brief()));
    }
    let listing = match parse_listing(&lo.stdout) {
        Ok(l) => l,
        Err(e) => return Verdict::Fail(format!("C02 sweep: {e}\n{}", lo.brief())),
    };
    let observed = listing.first().map(|l| l.modified);
    let want = match region {
        Region::TagValue => Some(false),
        Region::Content => Some(true),
        Region::EndTail | Region::After | Region::BeforeTag | Region::AfterTag => None,
    };
    probe.class(&format!("region:{region:?}"));
    probe.class(["op:substitute", "op:insert", "op:delete"][(c.op % 3) as usize]);
    if t.len() != t.chars().count() && t[..c.pos].len() != t[..c.pos].chars().count() {
        probe.nontrivial(); // byte and character columns differ at this position
    } else if at_region_end || regs.iter().any(|(s, _, _)| *s == c.pos) {
        probe.nontrivial(); // a region boundary
    }
    probe.sample(|| json!({"new_line": t, "old_line": old_line, "pos": c.pos, "region": format!("{region:?}"), "expected": format!("{want:?}"), "observed": format!("{observed:?}")}));
    if observed != want {
        let what = format!(
            "C02 sweep: editing byte {} ({:?}, op {}) of the line lies in {:?}: expected {}, observed {}\n--- new line ---\n{t}\n--- old line ---\n{old_line}\n--- diff ---\n{diff}\n--- observed ---\n{}",
            c.pos,
            ch,
            ["substitute", "insert", "delete-before"][(c.op % 3) as usize],
            region,
            match want {
                Some(true) => "selected with is_content_modified=true",
                Some(false) => "selected (tag touched) with is_content_modified=false",
                None => "not selected",
            },
            match observed {
                Some(m) => format!("selected with is_content_modified={m}"),
                None => "not selected".into(),
            },
            lo.brief()
        );
        // K4: deleting the last character of a region marks only the byte *after* the deletion
        let content_end = regs.iter().find(|r| r.2 == Region::Content).unwrap().1;
        if c.op % 3 == 2 && c.pos == content_end && known::listed("K4") {
            probe.class("known:K4");
            return Verdict::Known("K4");
        }
        return Verdict::Fail(what);
    }
    Verdict::Pass
}

/// Diffs that name files but select no block: only deletions, only a binary change, only a mode change, only a
/// pure rename, and combinations. Next to them sits an untouched file with a violating block.
#[derive(Clone, Debug, Serialize, Deserialize)]
pub struct NoSelection {
    /// bit 0 deletion, bit 1 binary change, bit 2 mode change, bit 3 pure rename
    pub kinds: u8,
    pub unified: u8,
    pub staged: bool,
}

pub fn no_selection_cases() -> Vec<NoSelection> {
    let mut out = vec![];
    for kinds in 1..16u8 {
        for (unified, staged) in [(0u8, true), (3, false)] {
            out.push(NoSelection { kinds, unified, staged });
        }
    }
    out
}

pub fn check_no_selection(c: &NoSelection, probe: &Probe) -> Verdict {
    let violating = "# <block name=\"legacy\" keep-sorted>\nb\na\n# </block>\n";
    let mut files: Vec<(String, Option<String>, Option<String>, Option<String>)> = vec![("legacy.py".into(), Some(violating.into()), Some(violating.into()), None)];
    if c.kinds & 1 != 0 {
        files.push(("gone.py".into(), Some(violating.replace("legacy", "gone")), None, None));
    }
    if c.kinds & 2 != 0 {
        files.push(("blob.bin".into(), Some("\0\u{1}old".into()), Some("\0\u{2}new and longer".into()), None));
    }
    if c.kinds & 4 != 0 {
        files.push(("@x:tool.sh".into(), Some(violating.replace("legacy", "tool")), Some(violating.replace("legacy", "tool")), None));
    }
    if c.kinds & 8 != 0 {
        files.push(("moved_to.py".into(), Some(violating.replace("legacy", "moved")), Some(violating.replace("legacy", "moved")), Some("moved_from.py".into())));
    }
    let sb = Sandbox::new();
    let mode = DiffMode { unified: c.unified % 11, kind: if c.staged { 1 } else { 2 }, algo: 0, renames: true };
    let diff = gitcase::make_diff(&sb, &StatePair { files }, &mode);
    if diff.trim().is_empty() {
        return Verdict::Unspecified("git produced no diff");
    }
    probe.nontrivial();
    for args in [vec![], vec!["list"]] {
        probe.child();
        probe.evals(1);
        let o = sb.bw(&BwRun::diff(&args, diff.as_bytes()));
        let what = format!("C02 [diff selecting nothing, kinds {:#06b}, args {args:?}]", c.kinds);
        if o.timed_out || o.panicked() {
            return Verdict::Fail(format!("{what}: crash\n--- diff ---\n{diff}\n{}", o.brief()));
        }
        if o.code != Some(0) || !o.stderr.trim().is_empty() {
            return Verdict::Fail(format!("{what}: the diff touches no line of any block, yet the run reports something or fails (untouched blocks validated?)\n--- diff ---\n{diff}\n{}", o.brief()));
        }
        if args.is_empty() {
            if !o.stdout.trim().is_empty() {
                return Verdict::Fail(format!("{what}: validation run printed to stdout\n{}", o.brief()));
            }
        } else {
            match parse_listing(&o.stdout) {
                Ok(l) if l.is_empty() => {}
                Ok(l) => return Verdict::Fail(format!("{what}: {} untouched block(s) listed\n--- diff ---\n{diff}\n{}", l.len(), o.brief())),
                Err(e) => return Verdict::Fail(format!("{what}: {e}\n{}", o.brief())),
            }
        }
    }
    Verdict::Pass
}

pub fn run(run: &mut Run) {
    run.enumerate("no-selection", no_selection_cases(), Some("every non-empty combination of {deletion, binary change, mode change, pure rename} entries x {staged -U0, HEAD -U3}"), check_no_selection);
    run.rule = "enumerated no-selection: diffs made only of deletions / binary changes / mode changes / pure renames (every combination) next to an untouched violating file: nothing is validated, `list` prints `{}`. random: 1..3 files (js, sh, rs, py, c) x 2..7 uniquely named non-nested blocks (own-line line comments, own-line block comments, everything on one line, a start tag spread over three lines with the edited attribute on the middle one, both tags inside one multi-line block comment (whose text behind the tags is in half of the cases edited too: the comment grows by a line carrying its closer, or loses its last remark line), or nested in an untouched outer block whose start tag shares the comment) separated by 5 padding lines, each with 0..2 rules (keep-sorted, keep-unique, line-pattern, line-count, check-lua echo/nil; violating or not by chance) and a *set* of edit classes: inside (replace / insert / pure deletion / blanking of a content line / removal of trailing blanks only), tag-only (substitute or insert a character of an attribute value, append an attribute, change the last attribute's value, delete an attribute, delete a second `>` right after the tag — at the line's tail when the tag ends its line), end-tag-only (text after </block>, whitespace in </ block >), plus edits of padding lines (outside; in a fifth of the files some of them are pure deletions of a line directly above a block's start-tag line - code outside the block: mismatches of exactly that shape are attributed to listed finding K9) and untouched blocks; a 600-byte attribute in one tag of seven; multi-byte text before the tag and inside it (an attribute in front of the edited one) in 25%; real `git diff -U0..10`, in a third of the cases with a deleted file and an emptied file in front of the others; optional path arguments. Oracle: (a) `list` in diff mode = exactly the inside/tag-only blocks with is_content_modified exactly for inside; (b) diff-mode diagnostics = full-scan diagnostics restricted to the selected blocks' extents, exit status accordingly; (c) with path arguments = full scan of those files + diff-mode result of the others. enumerated sweep: every byte position of the start tag, the comment text before and after it, the content, the whole end-tag comment and the code after it in 3 one-line block templates (ASCII, multi-byte before the tag, indented) x {substitute, insert, delete}. Non-trivial (random) = a violating untouched block, a violating selected block and a tag-only block; (sweep) = a region boundary or a position where byte and character columns differ.".into();
    run.assumptions = vec![
        "pure line deletions are only generated where no earlier net line shift exists in the file (K1 excluded by construction, counted)".into(),
        "the sweep edits the OLD line only (the parsed NEW line is always the intact template); a deletion directly adjoining the start tag's `<` or `>` is unspecified and not judged".into(),
    ];
    run.sentinel("K4", "sweep", check_sweep);
    run.sentinel("K9", "touch", check);
    run.enumerate("sweep", sweep_cases(), Some("every byte position of the safe regions of 3 inline templates x 3 character edits"), check_sweep);
    run.shrink_iters = 200;
    run.random("touch", run.tier.pick(1200, 30000), case_strategy, check);
}
