//! C11 — exit status and report follow the diagnostics and their severity.
use crate::cli::{BwRun, Sandbox};
use crate::engine::{Probe, Run, Verdict};
use crate::models::{self, KsOutcome};
use crate::report::{Diag, parse_diags, parse_listing};
use crate::rules::{ExpDiag, Host, RuleBlock, render_batch};
use proptest::prelude::*;
use serde::{Deserialize, Serialize};
use serde_json::json;

#[derive(Clone, Debug, Serialize, Deserialize, Hash)]
pub struct MBlock {
    /// severity attribute as written (None = absent)
    pub severity: Option<String>,
    pub keep_sorted: Option<String>,
    pub keep_unique: bool,
    pub line_pattern: Option<String>,
    pub line_count: Option<String>,
    /// check-lua: Some(true) = script echoing its content, Some(false) = script returning nil
    pub lua: Option<bool>,
    /// check-ai: Some(true) = the fake endpoint objects, Some(false) = it answers OK
    #[serde(default)]
    pub ai: Option<bool>,
    /// affects: number of referenced blocks that do not exist (0 = no attribute); in diff mode every block is
    /// new, hence modified, and each stale reference is one violation at the same start-tag range
    #[serde(default)]
    pub affects: u8,
    pub lines: Vec<String>,
}

#[derive(Clone, Debug, Serialize, Deserialize, Hash)]
pub struct MFile {
    pub host: Host,
    pub dir: String,
    pub blocks: Vec<MBlock>,
}

#[derive(Clone, Debug, Serialize, Deserialize, Hash)]
pub struct MCase {
    pub files: Vec<MFile>,
    /// 0 = scan with explicit paths, 1 = scan interactive without globs, 2 = new-file diff on stdin
    pub mode: u8,
}

pub const ECHO_LUA: &str = "function validate(ctx, content)\n  return \"E:\" .. content\nend\n";
pub const NIL_LUA: &str = "function validate(ctx, content)\n  return nil\nend\n";

pub fn severity_number(s: Option<&str>) -> u64 {
    match s.map(|x| x.to_ascii_lowercase()).as_deref() {
        None | Some("error") => 1,
        Some("warning") => 2,
        Some("info") => 3,
        Some("hint") => 4,
        // an unknown value: only ever rendered on blocks without any violation (see `to_rule_block`)
        Some(_) => 1,
    }
}

impl MBlock {
    /// stale references are only attached to blocks that have content lines (whether a content-less block
    /// counts as modified is not stated)
    fn n_affects(&self) -> u8 {
        if self.lines.is_empty() || self.affects >= 4 { 0 } else { self.affects }
    }
    pub fn to_rule_block(&self, name: &str) -> RuleBlock {
        self.to_rule_block_in(name, false)
    }

    /// An unknown severity (`warn`) is kept only when the block reports nothing in this mode: it is harmless
    /// there (C13 makes it an error only on a block that has a violation) and the run's exit status must not
    /// depend on it.
    pub fn to_rule_block_in(&self, name: &str, diff_mode: bool) -> RuleBlock {
        let mut attrs = vec![("name".to_string(), Some(name.to_string()))];
        let known = |s: &str| matches!(s.to_ascii_lowercase().as_str(), "error" | "warning" | "info" | "hint");
        let dummy = crate::rules::BlockPos { tag_line: 1, tag_sc: 1, tag_ec: 1, first_line: 2, end_line: 3 };
        if let Some(s) = &self.severity
            && (known(s) || self.expected(&dummy, name, diff_mode).is_empty())
        {
            attrs.push(("severity".into(), Some(s.clone())));
        }
        if let Some(d) = &self.keep_sorted {
            attrs.push(("keep-sorted".into(), Some(d.clone())));
        }
        if self.keep_unique {
            attrs.push(("keep-unique".into(), None));
        }
        if let Some(p) = &self.line_pattern {
            attrs.push(("line-pattern".into(), Some(p.clone())));
        }
        if let Some(e) = &self.line_count {
            attrs.push(("line-count".into(), Some(e.clone())));
        }
        if let Some(echo) = self.lua {
            attrs.push(("check-lua".into(), Some(if echo { "echo.lua".into() } else { "nil.lua".into() })));
        }
        if let Some(bad) = self.ai {
            attrs.push(("check-ai".into(), Some(format!("condition for {name} {}", if bad { "BAD" } else { "GOOD" }))));
        }
        if self.affects == 4 && !self.lines.is_empty() {
            // a satisfied link: the block references itself (in diff mode it is modified, so nothing is reported)
            attrs.push(("affects".into(), Some(format!(":{name}"))));
        } else if self.n_affects() > 0 {
            let refs: Vec<String> = (0..self.n_affects()).map(|k| format!(":stale{k}-{name}")).collect();
            attrs.push(("affects".into(), Some(refs.join(", "))));
        }
        RuleBlock { attrs, lines: self.lines.clone(), indent: 0 }
    }

    /// Expected diagnostics of this block from the reference models.
    pub fn expected(&self, pos: &crate::rules::BlockPos, name: &str, diff_mode: bool) -> Vec<ExpDiag> {
        let sev = severity_number(self.severity.as_deref());
        let lines: Vec<&str> = self.lines.iter().map(String::as_str).collect();
        let mut out = vec![];
        if let Some(d) = &self.keep_sorted
            && let KsOutcome::OutOfOrder(i, sp) = models::keep_sorted(&lines, models::dir_of(d).unwrap(), None, false)
        {
            out.push(ExpDiag::key("keep-sorted", pos, i, sp).sev(sev));
        }
        if self.keep_unique
            && let Some((i, sp)) = models::keep_unique(&lines, None)
        {
            out.push(ExpDiag::key("keep-unique", pos, i, sp).sev(sev));
        }
        if let Some(p) = &self.line_pattern
            && let Some((i, sp)) = models::line_pattern(&lines, models::line_pat(p).unwrap())
        {
            out.push(ExpDiag::key("line-pattern", pos, i, sp).sev(sev));
        }
        if let Some(e) = &self.line_count {
            let (op, n) = models::parse_line_count(e).unwrap();
            let actual = lines.iter().filter(|l| !l.trim().is_empty()).count() as u64;
            if !op.holds(actual, n) {
                out.push(ExpDiag::tag("line-count", pos).sev(sev).with_data("/actual", json!(actual)));
            }
        }
        if self.lua == Some(true) {
            let content = self.lines.join("\n");
            out.push(ExpDiag::tag("check-lua", pos).sev(sev).with_data("/lua_error", json!(format!("E:{}", content.trim()))));
        }
        if self.ai == Some(true) {
            out.push(ExpDiag::tag("check-ai", pos).sev(sev).with_data("/ai_message", json!("objection from the fake endpoint")));
        }
        // drift is only judged in diff mode; content-less blocks cannot be modified (C01's unspecified zone): see lay_out
        if diff_mode {
            for k in 0..self.n_affects() {
                out.push(ExpDiag::tag("affects", pos).sev(sev).with_data("/affected_block_name", json!(format!("stale{k}-{name}"))));
            }
        }
        out
    }
}

pub struct Laid {
    pub path: String,
    pub text: String,
    pub names: Vec<String>,
    pub expected: Vec<ExpDiag>,
}

pub fn lay_out(case: &MCase) -> Vec<Laid> {
    case.files
        .iter()
        .enumerate()
        .map(|(fi, f)| {
            let names: Vec<String> = (0..f.blocks.len()).map(|bi| format!("f{fi}b{bi}")).collect();
            let rb: Vec<RuleBlock> = f.blocks.iter().zip(&names).map(|(b, n)| b.to_rule_block_in(n, case.mode % 3 == 2)).collect();
            let r = render_batch(f.host, &rb);
            let expected = f.blocks.iter().zip(&r.pos).zip(&names).flat_map(|((b, p), n)| b.expected(p, n, case.mode % 3 == 2)).collect();
            let ext = f.host.file().rsplit('.').next().unwrap();
            // (a backslash is an ordinary character of a POSIX file name; git would quote such a path in a diff,
            // which is outside the generated domain, so diff mode uses the name without it)
            let dir = if case.mode % 3 == 2 { f.dir.replace('\\', "").replace(|c: char| !c.is_ascii(), "u") } else { f.dir.clone() };
            let path = if dir.is_empty() { format!("f{fi}.{ext}") } else { format!("{dir}/f{fi}.{ext}") };
            Laid { path, text: r.text, names, expected }
        })
        .collect()
}

/// Multiset comparison of a whole report with the expectation, keyed by file.
pub fn diff_report(laid: &[Laid], obs: &[Diag]) -> Option<String> {
    let mut used = vec![false; obs.len()];
    let mut missing = vec![];
    for l in laid {
        for e in &l.expected {
            if let Some(i) = (0..obs.len()).find(|&i| !used[i] && obs[i].file == l.path && e.matches(&obs[i])) {
                used[i] = true;
            } else {
                missing.push((l.path.clone(), e.clone()));
            }
        }
    }
    let extra: Vec<&Diag> = obs.iter().enumerate().filter(|(i, _)| !used[*i]).map(|(_, d)| d).collect();
    if missing.is_empty() && extra.is_empty() {
        None
    } else {
        Some(format!("lost (expected, absent): {missing:?}\nunexpected or duplicated: {extra:?}"))
    }
}

pub fn check(case: &MCase, probe: &Probe) -> Verdict {
    let laid = lay_out(case);
    let all: Vec<&ExpDiag> = laid.iter().flat_map(|l| l.expected.iter()).collect();
    let n_err = all.iter().filter(|d| d.severity == 1).count();
    let n_non = all.len() - n_err;
    let multi_validator_file = laid.iter().any(|l| {
        let mut codes: Vec<&str> = l.expected.iter().map(|e| e.code.as_str()).collect();
        codes.sort();
        codes.dedup();
        codes.len() >= 2
    });
    if multi_validator_file && ((n_err >= 1 && n_non >= 2) || (n_non >= 1 && n_err >= 2)) {
        probe.nontrivial();
    }
    probe.class(match (n_err, n_non) {
        (0, 0) => "no-diagnostics",
        (0, _) => "only-non-error",
        (_, 0) => "only-error",
        _ => "mixed-severity",
    });
    probe.class(["mode:scan-paths", "mode:scan-interactive", "mode:diff"][case.mode as usize % 3]);
    let want_exit = if n_err > 0 { 1 } else { 0 };

    let sb = if case.mode % 3 == 2 { Sandbox::new() } else { Sandbox::with_fake_git() };
    let describe = |what: &str, out: &crate::cli::Out| {
        let files: Vec<String> = laid.iter().map(|l| format!("--- {} ---\n{}", l.path, l.text)).collect();
        format!("C11: {what}\n{}\n--- observed ---\n{}", files.join("\n"), out.brief())
    };
    sb.write("echo.lua", ECHO_LUA.as_bytes());
    sb.write("nil.lua", NIL_LUA.as_bytes());
    let fake = crate::fakeai::FakeAi::start(|_, req| {
        if req.user_message().unwrap_or_default().contains("BAD") { crate::fakeai::Reply::Text("objection from the fake endpoint".into()) } else { crate::fakeai::Reply::Text("OK".into()) }
    });
    let with_ai = |r: BwRun| r.env("BLOCKWATCH_AI_API_URL", &fake.url()).env("BLOCKWATCH_AI_API_KEY", "k").env("BLOCKWATCH_AI_MODEL", "m");
    // path arguments are globs: a backslash in a file name has to be escaped there
    let escaped: Vec<String> = laid.iter().map(|l| l.path.replace('\\', "\\\\")).collect();
    let paths: Vec<&str> = escaped.iter().map(String::as_str).collect();
    let mut the_diff = String::new();
    let out = match case.mode % 3 {
        0 | 1 => {
            for l in &laid {
                sb.write(&l.path, l.text.as_bytes());
            }
            probe.child();
            if case.mode % 3 == 0 { sb.bw(&with_ai(BwRun::scan(&paths))) } else { sb.bw(&with_ai(BwRun::scan(&[]))) }
        }
        _ => {
            sb.init_repo();
            sb.commit_all("base");
            for l in &laid {
                sb.write(&l.path, l.text.as_bytes());
            }
            sb.git_ok(&["add", "-A"]);
            let d = sb.git_diff(&["--cached"]);
            the_diff = d.clone();
            probe.child();
            sb.bw(&with_ai(BwRun::diff(&[], d.as_bytes())))
        }
    };
    probe.sample(|| json!({"mode": case.mode % 3, "files": laid.iter().map(|l| json!({"path": l.path, "text": crate::cli::trunc(&l.text, 400), "expected": format!("{:?}", l.expected)})).collect::<Vec<_>>(), "exit": out.code}));
    if out.timed_out {
        return Verdict::Fail(describe("run timed out", &out));
    }
    if out.panicked() {
        return Verdict::Fail(describe("crash", &out));
    }
    let obs = match parse_diags(&out.stderr) {
        Ok(o) => o,
        Err(e) => return Verdict::Fail(describe(&format!("stderr is not one JSON report: {e}"), &out)),
    };
    if let Some(m) = diff_report(&laid, &obs) {
        return Verdict::Fail(describe(&format!("report differs from the expected multiset:\n{m}"), &out));
    }
    if out.code != Some(want_exit) {
        return Verdict::Fail(describe(&format!("exit status {:?}, expected {want_exit} ({n_err} error-severity, {n_non} other diagnostics)", out.code), &out));
    }
    if all.is_empty() && !out.stderr.trim().is_empty() {
        return Verdict::Fail(describe("no diagnostics expected but stderr is not empty", &out));
    }
    if !out.stdout.trim().is_empty() {
        return Verdict::Fail(describe("validation run printed to stdout", &out));
    }
    // `list` prints the selected blocks as one JSON object on stdout and exits 0, whatever the violations.
    if case.mode % 3 == 2 {
        // a diff that selects nothing (here: no diff text at all) still yields one JSON object: `{}`
        probe.child();
        let eo = sb.bw(&BwRun::diff(&["list"], b""));
        if eo.code != Some(0) || eo.panicked() {
            return Verdict::Fail(describe("`list` with an empty diff did not exit 0", &eo));
        }
        match parse_listing(&eo.stdout) {
            Ok(l) if l.is_empty() => {}
            Ok(l) => return Verdict::Fail(describe(&format!("`list` with an empty diff listed {} block(s)", l.len()), &eo)),
            Err(e) => return Verdict::Fail(describe(&format!("`list` with an empty diff did not print one JSON object: {e}"), &eo)),
        }
    }
    {
        probe.child();
        let mut args = vec!["list"];
        if case.mode % 3 == 0 {
            args.extend(paths.iter());
        }
        let lo = if case.mode % 3 == 2 { sb.bw(&BwRun::diff(&args, the_diff.as_bytes())) } else { sb.bw(&BwRun::scan(&args)) };
        if lo.code != Some(0) || lo.panicked() {
            return Verdict::Fail(describe("`list` did not exit 0", &lo));
        }
        let listing = match parse_listing(&lo.stdout) {
            Ok(l) => l,
            Err(e) => return Verdict::Fail(describe(&format!("`list` stdout is not one JSON object: {e}"), &lo)),
        };
        // (the batch renderer interleaves rule-less `plain…` blocks; they are listed too and not part of the expectation)
        let mut got: Vec<(String, String)> = listing.iter().filter(|b| !b.name.starts_with("plain")).map(|b| (b.file.clone(), b.name.clone())).collect();
        let mut want: Vec<(String, String)> = laid.iter().flat_map(|l| l.names.iter().map(|n| (l.path.clone(), n.clone()))).collect();
        got.sort();
        want.sort();
        if got != want {
            return Verdict::Fail(describe(&format!("`list` blocks {got:?} differ from the written blocks {want:?}"), &lo));
        }
        if !lo.stderr.trim().is_empty() {
            return Verdict::Fail(describe("`list` wrote to stderr", &lo));
        }
    }
    Verdict::Pass
}

const LINES: &[&str] = &["a", "b", "ab", "x1", "xy", "  a", "", "B", "b  ", "zz top"];
const SEVS: &[Option<&str>] = &[None, Some("error"), Some("warning"), Some("info"), Some("hint"), Some("Warning"), Some("ERROR"), Some("iNfO"), Some("HINT"), Some("warn")];

pub fn block_strategy() -> BoxedStrategy<MBlock> {
    (
        0..SEVS.len(),
        proptest::option::weighted(0.6, prop_oneof![Just("asc"), Just("desc"), Just("")]),
        proptest::bool::weighted(0.6),
        proptest::option::weighted(0.6, 0..models::LINE_PATS.len()),
        proptest::option::weighted(0.6, (0usize..5, 0u64..5)),
        proptest::option::weighted(0.4, any::<bool>()),
        proptest::option::weighted(0.3, any::<bool>()),
        proptest::collection::vec(0..LINES.len(), 0..7),
        prop_oneof![4 => Just(0u8), 1 => 1u8..5],
    )
        .prop_map(|(sev, ks, ku, lp, lc, lua, ai, ls, affects)| MBlock {
            severity: SEVS[sev].map(String::from),
            keep_sorted: ks.map(String::from),
            keep_unique: ku,
            line_pattern: lp.map(|i| models::LINE_PATS[i].re.to_string()),
            line_count: lc.map(|(op, n)| format!("{}{n}", models::Op::ALL[op].text())),
            lua,
            ai,
            affects,
            lines: ls.into_iter().map(|i| LINES[i].to_string()).collect(),
        })
        .boxed()
}

pub fn case_strategy() -> BoxedStrategy<MCase> {
    let file = (
        prop_oneof![Just(Host::Sh), Just(Host::Rb), Just(Host::Sh)],
        prop_oneof![Just(""), Just("d"), Just("d/e"), Just("src dir"), Just("gen\\x"), Just("é\u{1f600}")],
        proptest::collection::vec(block_strategy(), 1..7),
    )
        .prop_map(|(host, dir, blocks)| MFile { host, dir: dir.to_string(), blocks });
    (proptest::collection::vec(file, 1..6), 0u8..3).prop_map(|(files, mode)| MCase { files, mode }).boxed()
}

pub fn run(run: &mut Run) {
    run.rule = "random: 1..5 files (root or sub-directories, one with a space, one with a backslash, one with an accented letter and an emoji in its name) x 1..6 blocks x independent choice of keep-sorted / keep-unique / line-pattern / line-count / check-lua(echo|nil) / check-ai(fake endpoint objecting or answering OK) / affects with 1..3 stale references (live in diff mode: several diagnostics on the same range) or one satisfied self-reference on the same lines x severity in {absent, error, warning, info, hint} in random letter case (and the unknown value `warn` on blocks that report nothing: harmless there); modes: scan with paths, interactive scan, new-file diff on stdin; then `list` in the same mode (and, in diff mode, `list` with an empty diff, which must print `{}`). Expected diagnostics from the C06–C09 reference models. Non-trivial case = at least two validators reporting on one file and an error among >= 2 non-errors (or the converse).".into();
    run.assumptions = vec!["block content lines are shell/ruby words; check-lua scripts are `echo` / `nil` scripts in the repository root".into()];
    run.random("mix", run.tier.pick(1200, 30000), case_strategy, check);
}
