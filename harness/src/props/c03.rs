//! C03 — blocks are exactly the tag pairs written in comments, in every language.
use crate::builder::{self, Attr, Built, Ev, StartTag};
use crate::cli::{BwRun, Sandbox};
use crate::engine::{Probe, Run, Verdict};
use crate::langs::{self, SUFFIXES};
use crate::report::{parse_diags, parse_listing};
use proptest::prelude::*;
use serde::{Deserialize, Serialize};
use serde_json::json;

#[derive(Clone, Debug, Serialize, Deserialize)]
pub struct SrcCase {
    /// index into SUFFIXES
    pub suffix: usize,
    pub events: Vec<Ev>,
    pub crlf: bool,
    /// observe the content through a check-lua echo
    pub echo: bool,
    /// drop the file's final line terminator (languages without a footer)
    #[serde(default)]
    pub no_eol: bool,
    /// the file starts with a UTF-8 byte-order mark
    #[serde(default)]
    pub bom: bool,
    /// the file ends with one more comment line whose text holds a NUL character (valid UTF-8; git and many
    /// tools would call the file binary, blockwatch has no such notion)
    #[serde(default)]
    pub nul: bool,
    /// the file starts with FAR_LINES empty lines: every line number lies beyond 65 535
    #[serde(default)]
    pub far: bool,
}

pub const FAR_LINES: usize = 70_000;

pub const ECHO_PATTERN: &str = r"[\s\S]*";

pub fn with_echo(events: &[Ev]) -> Vec<Ev> {
    events
        .iter()
        .map(|e| match e {
            Ev::Open { tag, place } => {
                let mut t: StartTag = tag.clone();
                t.attrs.retain(|a| a.name != "check-lua" && a.name != "check-lua-pattern");
                t.attrs.push(Attr::simple("check-lua", "echo.lua"));
                t.attrs.push(Attr::simple("check-lua-pattern", ECHO_PATTERN));
                Ev::Open { tag: t, place: place.clone() }
            }
            o => o.clone(),
        })
        .collect()
}

pub struct Prepared {
    pub suffix: &'static str,
    pub lang: &'static langs::Lang,
    pub file: String,
    pub built: Built,
}

pub fn prepare(c: &SrcCase) -> Prepared {
    let (suffix, lid) = SUFFIXES[c.suffix % SUFFIXES.len()];
    let lang = langs::lang(lid);
    let events = if c.echo { with_echo(&c.events) } else { c.events.clone() };
    let mut built = builder::build(lang, &events, c.crlf);
    if c.no_eol && lang.footer.is_empty() && !lang.markdown {
        let t = &mut built.text;
        if t.ends_with("\r\n") {
            t.truncate(t.len() - 2);
        } else if t.ends_with('\n') {
            t.pop();
        }
    }
    if c.nul && lang.footer.is_empty() && !(c.no_eol && !lang.markdown) {
        let nl = if c.crlf { "\r\n" } else { "\n" };
        if lang.markdown {
            built.text.push_str(&format!("{nl}[//]: # (nul\0byte){nl}"));
        } else if let Some(lc) = lang.line.first() {
            built.text.push_str(&format!("{lc} nul\0byte{nl}"));
        }
    }
    if c.bom {
        built = built.with_bom();
    }
    if c.far {
        built = built.with_blank_prefix(FAR_LINES, c.crlf);
    }
    Prepared { suffix, lang, file: langs::file_name("src", suffix), built }
}

pub fn content_matches(truth: &builder::TruthBlock, observed: &str, crlf: bool) -> bool {
    if truth.content == observed {
        return true;
    }
    // Unspecified by the statement, hence tolerated:
    //  * the single line terminator directly after a tag comment whose grammar node swallows it (Rust doc
    //    comments, Markdown definitions);
    //  * the `\r` of a CRLF terminator after a line comment;
    //  * the indentation in front of an indented Markdown definition holding the end tag (the grammar
    //    counts it as part of the definition).
    let mut starts = vec![truth.content.as_str()];
    if truth.lenient_start {
        for t in ["\r\n", "\n"] {
            if let Some(r) = truth.content.strip_prefix(t) {
                starts.push(r);
            }
        }
    }
    if crlf && let Some(r) = truth.content.strip_prefix('\r') {
        starts.push(r);
    }
    for s in starts {
        if s == observed {
            return true;
        }
        if truth.lenient_end && s.trim_end_matches([' ', '\t']) == observed.trim_end_matches([' ', '\t']) {
            return true;
        }
    }
    false
}

pub fn check(c: &SrcCase, probe: &Probe) -> Verdict {
    check_as("C03", c, probe, &|p: &Prepared| {
        let truth = &p.built.blocks;
        let nested = truth.iter().any(|b| b.depth > 0);
        (truth.len() >= 2 && nested || p.built.n_decoys >= 1) && (p.built.n_multiline_comments >= 1 || p.built.n_joined >= 1)
    })
}

pub fn check_as(prop: &str, c: &SrcCase, probe: &Probe, nontrivial: &dyn Fn(&Prepared) -> bool) -> Verdict {
    let p = prepare(c);
    probe.class(&format!("suffix:{}", p.suffix));
    if langs::healthy(p.lang.id, &p.built.text) == Some(false) {
        probe.class("discarded:grammar-reports-ERROR-on-generated-source");
        probe.class(&format!("discarded-lang:{}", p.lang.id));
        if std::env::var("BWV_DEBUG_DISCARD").is_ok() {
            eprintln!("=== DISCARD {} ===\n{}\n{}", p.lang.id, p.built.text, crate::langs::sexp(p.lang.id, &p.built.text));
        }
        return Verdict::Unspecified("generated source is not accepted by the language's own grammar (generator soundness filter)");
    }
    let truth = &p.built.blocks;
    let nested = truth.iter().any(|b| b.depth > 0);
    if nontrivial(&p) {
        probe.nontrivial();
    }
    probe.class(&format!("blocks:{}", truth.len().min(6)));
    if nested {
        probe.class("nested");
    }
    if p.built.n_decoys > 0 {
        probe.class("decoys");
    }
    if p.built.n_multiline_comments > 0 {
        probe.class("multi-line-comment");
    }
    if p.built.n_joined > 0 {
        probe.class("several-tags-in-one-comment");
    }
    if c.crlf {
        probe.class("crlf");
    }
    if c.far {
        probe.class("line-numbers-beyond-65535");
    }
    let sb = Sandbox::with_fake_git();
    sb.write(&p.file, p.built.text.as_bytes());
    sb.write("echo.lua", super::c11::ECHO_LUA.as_bytes());
    probe.child();
    let out = sb.bw(&BwRun::scan(&["list", &p.file]));
    probe.sample(|| json!({"file": p.file, "text": crate::cli::trunc(&p.built.text, 700), "blocks_by_construction": truth.iter().map(|b| json!({"line": b.line, "col": b.col, "attrs": b.attrs, "content": crate::cli::trunc(&b.content, 80)})).collect::<Vec<_>>()}));
    let show = |what: &str, o: &crate::cli::Out| {
        format!(
            "{prop} [{}]: {what}\n--- {} ---\n{}\n--- blocks by construction ---\n{}\n--- observed ---\n{}",
            p.suffix,
            p.file,
            if c.far { format!("<{FAR_LINES} empty lines>\n{}", p.built.text.trim_start_matches(['\r', '\n'])) } else { p.built.text.clone() },
            truth.iter().map(|b| format!("  line {} col {} depth {} attrs {:?} content {:?}", b.line, b.col, b.depth, b.attrs, b.content)).collect::<Vec<_>>().join("\n"),
            o.brief()
        )
    };
    if out.timed_out || out.panicked() {
        return Verdict::Fail(show("list crashed", &out));
    }
    if out.code != Some(0) {
        return Verdict::Fail(show("list failed on a well-nested file", &out));
    }
    let listing = match parse_listing(&out.stdout) {
        Ok(l) => l,
        Err(e) => return Verdict::Fail(show(&format!("listing does not parse: {e}"), &out)),
    };
    if listing.len() != truth.len() {
        return Verdict::Fail(show(&format!("{} blocks listed, {} written in comments", listing.len(), truth.len()), &out));
    }
    for (i, (l, t)) in listing.iter().zip(truth.iter()).enumerate() {
        if l.file != p.file {
            return Verdict::Fail(show(&format!("block #{i} listed under {:?}", l.file), &out));
        }
        if (l.line as usize, l.column as usize) != (t.line, t.col) {
            return Verdict::Fail(show(&format!("block #{i} (source order) listed at {}:{}, its `<` is at {}:{}", l.line, l.column, t.line, t.col), &out));
        }
        if l.attrs != t.attrs {
            return Verdict::Fail(show(&format!("block #{i} attributes {:?}, written {:?}", l.attrs, t.attrs), &out));
        }
        // (the label shown for a block without a `name` attribute is not part of the statement)
        if let Some(want_name) = t.attrs.get("name")
            && &l.name != want_name
        {
            return Verdict::Fail(show(&format!("block #{i} name {:?}, expected {:?}", l.name, want_name), &out));
        }
    }
    if c.echo && !truth.is_empty() {
        probe.child();
        let o2 = sb.bw(&BwRun::scan(&[&p.file]));
        if o2.timed_out || o2.panicked() {
            return Verdict::Fail(show("validation run crashed", &o2));
        }
        let diags = match parse_diags(&o2.stderr) {
            Ok(d) => d,
            Err(e) => return Verdict::Fail(show(&format!("echo run: {e}"), &o2)),
        };
        if diags.len() != truth.len() {
            return Verdict::Fail(show(&format!("{} echo diagnostics for {} blocks", diags.len(), truth.len()), &o2));
        }
        for t in truth {
            let Some(d) = diags.iter().find(|d| d.code == "check-lua" && (d.sl as usize, d.sc as usize) == (t.line, t.col)) else {
                return Verdict::Fail(show(&format!("no echo diagnostic at {}:{}", t.line, t.col), &o2));
            };
            let data = d.data_json();
            let got = data.get("lua_error").and_then(|v| v.as_str()).unwrap_or("");
            let Some(got) = got.strip_prefix("E:") else { return Verdict::Fail(show("echo payload lacks its prefix", &o2)) };
            if !content_matches(t, got, c.crlf) {
                return Verdict::Fail(show(&format!("content of block at {}:{} is {:?}, the source text between the comments is {:?}", t.line, t.col, got, t.content), &o2));
            }
            if (d.el as usize, d.ec as usize) != (t.end_line, t.end_col) {
                return Verdict::Fail(show(&format!("start tag at {}:{} ends at {}:{} but the diagnostic range ends at {}:{}", t.line, t.col, t.end_line, t.end_col, d.el, d.ec), &o2));
            }
        }
        if o2.code != Some(1) {
            return Verdict::Fail(show("echo run with diagnostics did not exit 1", &o2));
        }
    }
    Verdict::Pass
}

pub fn case_strategy() -> BoxedStrategy<SrcCase> {
    (0..SUFFIXES.len(), builder::events_strategy(builder::simple_tag_strategy(), 28), proptest::bool::weighted(0.15), any::<bool>(), (proptest::bool::weighted(0.15), proptest::bool::weighted(0.08), proptest::bool::weighted(0.1), proptest::bool::weighted(0.01)))
        .prop_map(|(suffix, events, crlf, echo, (no_eol, bom, nul, far))| SrcCase { suffix, events, crlf, echo, no_eol, bom, nul, far })
        .boxed()
}

/// One canonical file per suffix: a line-comment block and (where the language has them) a block-comment block.
pub fn golden_cases() -> Vec<SrcCase> {
    use builder::Place;
    let mut out = vec![];
    for s in 0..SUFFIXES.len() {
        let lang = langs::lang(SUFFIXES[s].1);
        for f in 0..builder::forms(lang).len() as u8 {
            let tag = StartTag { attrs: vec![Attr::simple("name", "golden")], ws_end: String::new() };
            let pl = Place { form: f, ..Default::default() };
            out.push(SrcCase {
                suffix: s,
                events: vec![Ev::Code(0), Ev::Open { tag, place: pl.clone() }, Ev::Code(1), Ev::Close { spelling: 0, place: pl }, Ev::Code(2)],
                crlf: false,
                echo: true,
                no_eol: false,
                bom: false,
                nul: false,
                far: false,
            });
            if f == 0 {
                let mut far = out.last().unwrap().clone();
                far.far = true;
                out.push(far);
                // … and with a 70 000-byte attribute: the tag's `>` sits at a column beyond 65 535
                let mut wide = out[out.len() - 2].clone();
                if let Ev::Open { tag, .. } = &mut wide.events[1] {
                    tag.attrs.push(Attr::simple("note", &"x".repeat(70_000)));
                }
                out.push(wide);
            }
        }
    }
    out
}

pub fn run(run: &mut Run) {
    run.rule = "random: suffix uniform over the 39 registered suffixes; a flat event list (start/end tags with placement: comment form of the language, own comment or joined with the previous tag, code before/after on the same line, noise text before/after the tag, tag on its own line of a multi-line comment, `*` decoration, indentation; code lines; noise comments incl. look-alikes; decoy tags in string literals / markup / code; blank lines) balanced into a well-nested structure, CRLF in 15%, no final line terminator in 15%, a byte-order mark in 8%, a trailing comment holding a NUL character in 10%, the whole file below 70 000 empty lines (line numbers beyond 65 535) in 1%, content observed through a check-lua echo in 50%. Ground truth (attributes, line/byte column of `<` and `>`, exact content) by construction. Generated sources that the language's own tree-sitter grammar does not accept without ERROR nodes are discarded (counted). Non-trivial = (>= 2 blocks with nesting, or >= 1 decoy) and (a multi-line comment or several tags in one comment). enumerated: one golden file per (suffix, comment form), the first form of every suffix also below 70 000 empty lines and with a 70 000-byte attribute value.".into();
    run.assumptions = vec![
        "tree-sitter acceptance (no ERROR node) is used only as a validity filter for generated sources, never for the expected answer".into(),
        "the line terminator directly after a Rust doc comment / Markdown definition, and the \\r of CRLF after a line comment, are unspecified".into(),
        "go.mod/go.sum/go.work get go.mod-style lines with own-line // comments (not checkable by the Go grammar)".into(),
    ];
    run.enumerate("golden", golden_cases(), Some("one canonical block per (suffix, comment form), the first form of every suffix also below 70 000 empty lines and with a 70 000-byte attribute value"), check);
    run.random("sources", run.tier.pick(6000, 150000), case_strategy, check);
    if run.tier == crate::engine::Tier::Thorough {
        let seeds: Vec<Vec<u8>> = (0..64u8).map(|i| (0..40u8).map(|k| i.wrapping_mul(37).wrapping_add(k.wrapping_mul(11))).collect()).collect();
        run.fuzz_part("blocks_structured", "sources", 250_000, 8, 600, seeds, &|bytes, probe| {
            let case = crate::fuzzdec::decode_src_case(bytes, false);
            (check(&case, probe), serde_json::to_value(&case).unwrap_or_default())
        });
    }
}
