//! C16 — grammar is chosen by file name; unknown names are skipped.
use crate::builder::{self, Attr, Ev, Place, StartTag};
use crate::cli::{BwRun, Out, Sandbox};
use crate::engine::{Probe, Run, Verdict};
use crate::langs::{self, SUFFIXES};
use crate::report::parse_listing;
use proptest::prelude::*;
use serde::{Deserialize, Serialize};
use serde_json::json;
use std::collections::BTreeMap;

#[derive(Clone, Debug, Serialize, Deserialize)]
pub struct NameCase {
    /// root-relative paths of the files in the tree
    pub paths: Vec<String>,
    /// -E key=value pairs (distinct keys)
    pub maps: Vec<(String, String)>,
}

fn registered(s: &str) -> bool {
    SUFFIXES.iter().any(|(x, _)| *x == s)
}

/// Reference resolver written from the statement: the candidates are the text after each `.` of the base
/// name, from the right, then the whole name; the first candidate that a `-E` mapping or the registration
/// table knows wins (a mapping is consulted before the table).
pub fn resolve(path: &str, maps: &[(String, String)]) -> Option<&'static str> {
    let name = path.rsplit('/').next().unwrap();
    let mut cands: Vec<&str> = name.match_indices('.').rev().map(|(i, _)| &name[i + 1..]).collect();
    cands.push(name);
    for c in cands {
        if let Some((_, v)) = maps.iter().find(|(k, _)| k == c) {
            return SUFFIXES.iter().find(|(s, _)| s == v).map(|(s, _)| *s);
        }
        if let Some((s, _)) = SUFFIXES.iter().find(|(s, _)| *s == c) {
            return Some(s);
        }
    }
    None
}

/// A whole name that is an extension-style key (`py`, `rs`, `c`) is left unspecified by the statement.
fn whole_name_is_extension_key(path: &str, maps: &[(String, String)]) -> bool {
    let name = path.rsplit('/').next().unwrap();
    (registered(name) && !langs::WHOLE_NAME_SUFFIXES.contains(&name)) || maps.iter().any(|(k, _)| k == name)
}

const GARBAGE: &str = "# <block>\n// <block name=x>\n/* </block> */ </block>\n<!-- <block> -->\n-- </block> </block>\n";

fn golden_events(lang: &langs::Lang) -> Vec<Ev> {
    let mut ev = vec![Ev::Code(0)];
    for f in 0..builder::forms(lang).len() as u8 {
        let tag = StartTag { attrs: vec![Attr::simple("name", &format!("g{f}"))], ws_end: String::new() };
        let pl = Place { form: f, ..Default::default() };
        ev.extend([Ev::Open { tag, place: pl.clone() }, Ev::Code(1), Ev::Close { spelling: 0, place: pl }, Ev::Code(2)]);
    }
    // every string / here-doc / CDATA form of the language holding a tag look-alike: only the language's own
    // grammar is sure to keep all of them out of the comments (C++ raw strings under the C grammar are not)
    for k in 0..lang.decoys.len() as u16 {
        ev.extend([Ev::Decoy { tpl: k, tag: (k % 5) as u8 }, Ev::Code(3)]);
    }
    ev
}

fn hidden(path: &str) -> bool {
    path.split('/').any(|c| c.starts_with('.'))
}

pub fn check(c: &NameCase, probe: &Probe) -> Verdict {
    let mut expected: BTreeMap<String, Vec<(u64, u64, String)>> = BTreeMap::new();
    let mut files: Vec<(String, String, Option<&'static str>)> = vec![];
    let mut skipped_unspecified = 0;
    for p in &c.paths {
        if whole_name_is_extension_key(p, &c.maps) {
            skipped_unspecified += 1;
            continue;
        }
        let r = resolve(p, &c.maps);
        let text = match r {
            Some(s) => {
                let lang = langs::lang_of_suffix(s);
                let b = builder::build(lang, &golden_events(lang), false);
                expected.insert(p.clone(), b.blocks.iter().map(|t| (t.line as u64, t.col as u64, t.attrs["name"].clone())).collect());
                b.text
            }
            None => GARBAGE.to_string(),
        };
        files.push((p.clone(), text, r));
    }
    let _ = skipped_unspecified;
    let plain = c.paths.iter().filter(|p| {
        let name = p.rsplit('/').next().unwrap();
        name.matches('.').count() == 1 && !name.starts_with('.')
    });
    if c.paths.len() > plain.count() || !c.maps.is_empty() {
        probe.nontrivial();
    }
    for (_, _, r) in &files {
        probe.class(if r.is_some() { "resolved" } else { "unresolved(garbage content)" });
    }
    probe.evals(files.len().saturating_sub(1) as u64);
    let eargs: Vec<String> = c.maps.iter().flat_map(|(k, v)| ["-E".to_string(), format!("{k}={v}")]).collect();
    let show = |what: &str, o: &Out| format!("C16: {what}\nfiles: {:?}\nmaps: {:?}\n--- observed ---\n{}", files.iter().map(|(p, _, r)| format!("{p} -> {r:?}")).collect::<Vec<_>>(), c.maps, o.brief());
    probe.sample(|| json!({"maps": c.maps, "files": files.iter().map(|(p, _, r)| json!({"path": p, "resolves_to": r})).collect::<Vec<_>>()}));

    for diff_mode in [false, true] {
        let sb = if diff_mode { Sandbox::new() } else { Sandbox::with_fake_git() };
        if diff_mode {
            sb.init_repo();
            sb.commit_all("base");
        }
        for (p, t, _) in &files {
            sb.write(p, t.as_bytes());
        }
        let mut args: Vec<&str> = eargs.iter().map(String::as_str).collect();
        args.push("list");
        probe.child();
        let out = if diff_mode {
            sb.git_ok(&["add", "-A", "-f"]);
            let d = sb.git_diff(&["--cached"]);
            sb.bw(&BwRun::diff(&args, d.as_bytes()))
        } else {
            sb.bw(&BwRun::scan(&args))
        };
        if out.timed_out || out.panicked() {
            return Verdict::Fail(show("crash", &out));
        }
        if out.code != Some(0) {
            return Verdict::Fail(show(&format!("`list` ({}) failed: a file whose name maps to no grammar must be skipped silently, whatever it contains", if diff_mode { "diff mode" } else { "scan" }), &out));
        }
        let listing = match parse_listing(&out.stdout) {
            Ok(l) => l,
            Err(e) => return Verdict::Fail(show(&e, &out)),
        };
        let mut got: BTreeMap<String, Vec<(u64, u64, String)>> = BTreeMap::new();
        for b in listing {
            got.entry(b.file).or_default().push((b.line, b.column, b.name));
        }
        let want: BTreeMap<String, Vec<(u64, u64, String)>> = expected.iter().filter(|(p, v)| (diff_mode || !hidden(p)) && !v.is_empty()).map(|(p, v)| (p.clone(), v.clone())).collect();
        if got != want {
            let missing: Vec<_> = want.iter().filter(|(p, v)| got.get(*p) != Some(v)).collect();
            let extra: Vec<_> = got.iter().filter(|(p, v)| want.get(*p) != Some(v)).collect();
            return Verdict::Fail(show(&format!("listing ({}) differs from the reference resolver: expected-but-different {missing:?}; listed-but-unexpected {extra:?}", if diff_mode { "diff mode" } else { "scan" }), &out));
        }
    }
    Verdict::Pass
}

/// -E onto an unsupported grammar is rejected up front.
pub fn check_reject(c: &NameCase, probe: &Probe) -> Verdict {
    let sb = Sandbox::with_fake_git();
    // an unbalanced file in scope: if anything were examined before the flag check, the error would differ
    sb.write("x.py", b"# <block name=\"a\">\n# </block>\n");
    let eargs: Vec<String> = c.maps.iter().flat_map(|(k, v)| ["-E".to_string(), format!("{k}={v}")]).collect();
    for sub in [vec![], vec!["list"]] {
        let mut args: Vec<&str> = eargs.iter().map(String::as_str).collect();
        args.extend(sub.iter());
        probe.child();
        let out = sb.bw(&BwRun::scan(&args));
        if out.panicked() || out.timed_out {
            return Verdict::Fail(format!("C16: crash on -E {:?}: {}", c.maps, out.brief()));
        }
        if out.code == Some(0) || !out.stdout.trim().is_empty() {
            return Verdict::Fail(format!("C16: mapping onto an unsupported grammar accepted: -E {:?}: {}", c.maps, out.brief()));
        }
    }
    probe.nontrivial();
    probe.class("rejected-mapping");
    Verdict::Pass
}

fn shapes_for(s: &str) -> Vec<String> {
    let up = s.to_uppercase();
    let mut v = vec![
        format!("x.{s}"),
        format!("x.y.{s}"),
        format!(".x.{s}"),
        format!("d.ir/x.{s}"),
        format!("sub dir/deep/x-1.{s}"),
        format!("x.{s}.bak"),
        format!("x{s}"),
        format!("x.{s}."),
        format!("x..{s}"),
        format!("{s}.x"),
        format!("x.{s}~"),
        format!("x.rs.{s}"),
        format!("x.{s}.unknownext"),
    ];
    if up != s {
        v.push(format!("x.{up}"));
    }
    if langs::WHOLE_NAME_SUFFIXES.contains(&s) {
        v.extend([s.to_string(), format!("d/{s}"), format!("{s}.x"), format!("x{s}"), format!(".hidden/{s}")]);
    }
    v
}

pub fn enumerated() -> Vec<NameCase> {
    let mut out = vec![];
    for (s, _) in SUFFIXES {
        out.push(NameCase { paths: shapes_for(s), maps: vec![] });
    }
    // mappings: key in {unregistered, registered, compound, upper-case} x value over all registered suffixes
    for (v, _) in SUFFIXES {
        for k in ["bak", "py", "rs", "tar.gz", "PY", "conf", "md"] {
            if k == *v {
                continue;
            }
            out.push(NameCase {
                paths: vec![format!("f.{k}"), format!("g.x.{k}"), format!("h.{k}.{v}"), format!("i.{v}.{k}"), format!("j.{v}"), "k.other".into(), format!("d.{k}/l.txt"), format!("{k}x")],
                maps: vec![(k.to_string(), v.to_string())],
            });
        }
    }
    // compound keys whose last segment is itself registered: the shorter, right-most candidate wins
    for (v, _) in SUFFIXES {
        for (k, last) in [("min.js", "js"), ("test.py", "py"), ("d.ts", "ts"), ("spec.rb", "rb")] {
            if *v == last {
                continue;
            }
            out.push(NameCase { paths: vec![format!("a.{k}"), format!("b.x.{k}"), format!("c.{last}"), format!("dir.{k}/e.{v}")], maps: vec![(k.to_string(), v.to_string())] });
        }
    }
    // several mappings at once
    out.push(NameCase {
        paths: vec!["a.one".into(), "b.two".into(), "c.one.two".into(), "d.two.one".into(), "e.py".into(), "f.three".into()],
        maps: vec![("one".into(), "py".into()), ("two".into(), "rs".into()), ("py".into(), "md".into())],
    });
    out
}

pub fn enumerated_rejects() -> Vec<NameCase> {
    let mut out = vec![];
    for v in ["nope", "", "PY", "python", "rust", ".py", "py ", "Makefile2", "ts.d", "txt"] {
        for k in ["bak", "py"] {
            if v == "py " {
                continue; // value is trimmed by the flag parser: `py ` is `py`
            }
            out.push(NameCase { paths: vec![], maps: vec![(k.to_string(), v.to_string())] });
        }
    }
    out.push(NameCase { paths: vec![], maps: vec![("a".into(), "py".into()), ("b".into(), "nope".into())] });
    // the unsupported mapping anywhere among several, the same key repeated with a supported grammar before or
    // after it included (every mapping written on the command line is checked, not only the one that wins)
    for maps in [
        vec![("foo", "nope"), ("foo", "py")],
        vec![("foo", "py"), ("foo", "nope")],
        vec![("b", "nope"), ("a", "py")],
        vec![("a", "py"), ("b", "nope"), ("c", "rs")],
        vec![("py", "nope"), ("py", "rs")],
        vec![("foo", "py"), ("foo", "nope"), ("foo", "rs")],
    ] {
        out.push(NameCase { paths: vec![], maps: maps.into_iter().map(|(k, v)| (k.to_string(), v.to_string())).collect() });
    }
    out
}

pub fn random_case() -> BoxedStrategy<NameCase> {
    let seg = prop_oneof![
        3 => (0..SUFFIXES.len()).prop_map(|i| SUFFIXES[i].0.to_string()),
        2 => prop_oneof![Just("x"), Just("bak"), Just("Y"), Just("v1"), Just("min"), Just("test"), Just("PY"), Just("Rs")].prop_map(String::from),
        1 => Just(String::new()),
    ];
    let name = proptest::collection::vec(seg.clone(), 1..5).prop_map(|v| v.join(".")).prop_filter("usable file name", |n| !n.is_empty() && n != "." && n != ".." && !n.contains("..."));
    let dir = prop_oneof![3 => Just(String::new()), 1 => Just("d.py/".to_string()), 1 => Just("a b/c.rs/".to_string()), 1 => Just(".h/".to_string())];
    let path = (dir, name).prop_map(|(d, n)| format!("{d}{n}"));
    let map = (prop_oneof![Just("bak"), Just("x"), Just("py"), Just("v1"), Just("Y"), Just("min.js"), Just("test")], 0..SUFFIXES.len()).prop_map(|(k, v)| (k.to_string(), SUFFIXES[v].0.to_string()));
    (proptest::collection::vec(path, 1..10), proptest::collection::vec(map, 0..3))
        .prop_map(|(mut paths, mut maps)| {
            paths.sort();
            paths.dedup();
            // a path that is a directory prefix of another cannot coexist as a file
            let p2 = paths.clone();
            paths.retain(|p| !p2.iter().any(|q| q.starts_with(&format!("{p}/"))));
            maps.sort();
            maps.dedup_by(|a, b| a.0 == b.0);
            NameCase { paths, maps }
        })
        .boxed()
}

pub fn run(run: &mut Run) {
    run.rule = "enumerated: for each of the 39 registered suffixes 13..18 file-name shapes (x.s, x.y.s, hidden .x.s, dotted directories, spaces, x.s.bak, xs, trailing dot, double dot, s.x, x.rs.s, upper-case, whole-name forms for Makefile/makefile/go.mod/go.sum/go.work) in one tree, listed in scan mode and in diff mode (hidden files only count when named in the diff); 7 mapping keys (unregistered, registered, compound, upper-case) x all 39 values with 8 name shapes each; a multi-mapping tree; 21 rejected mappings. random (thorough weight): multi-dot names over registered/unregistered segments with 0..2 mappings. Files resolving to a grammar hold that language's golden blocks (one per comment form, ground truth by construction) followed by every string / here-doc / CDATA decoy of the language holding a tag look-alike (so that a neighbouring grammar gives a different answer); files resolving to none hold unbalanced tag garbage. Expected by a reference resolver. Non-trivial = a name that is not plain `stem.ext`, or a mapping.".into();
    run.assumptions = vec!["a file whose whole name equals an extension-style key (py, rs, c) is unspecified and not created".into()];
    run.enumerate("shapes", enumerated(), Some("name shapes x 39 suffixes; 7 mapping keys x 39 values"), check);
    run.enumerate("rejects", enumerated_rejects(), Some("27 usages with a mapping onto an unsupported grammar (alone, among others, the same key repeated before / after a supported one)"), check_reject);
    run.random("random-names", run.tier.pick(300, 8000), random_case, check);
}
