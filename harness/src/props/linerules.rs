//! Shared driver for the line-rule properties (C06–C09): run a batch, compare per block with the model's
//! expectation, reduce a failing batch to the single failing block.
use crate::engine::{Probe, Verdict};
use crate::rules::{BlockPos, ExpDiag, Host, RuleBlock, diff_block, expected_exit, run_batch};
use serde_json::Value;

pub fn check_rule_batch(
    prop: &str,
    host: Host,
    blocks: &[RuleBlock],
    exp: &dyn Fn(usize, &BlockPos) -> Vec<ExpDiag>,
    probe: &Probe,
    reduce: &dyn Fn(usize) -> Value,
) -> Verdict {
    let (r, res) = run_batch(host, blocks, probe, &[]);
    let exps: Vec<Vec<ExpDiag>> = (0..blocks.len()).map(|i| exp(i, &r.pos[i])).collect();
    let mut bad: Option<(Option<usize>, String)> = None;
    if res.out.timed_out {
        return Verdict::Fail(format!("{prop}: run timed out: {}", res.out.brief()));
    }
    if res.out.panicked() || !matches!(res.out.code, Some(0) | Some(1)) {
        bad = Some((None, format!("abnormal exit: {}", res.out.brief())));
    } else if let Some(e) = &res.parse_error {
        bad = Some((None, format!("report does not parse: {e}; {}", res.out.brief())));
    } else if !res.stray.is_empty() {
        bad = Some((None, format!("diagnostics outside any block: {:?}", res.stray)));
    } else {
        for i in 0..blocks.len() {
            if let Some(m) = diff_block(&exps[i], &res.per_block[i]) {
                bad = Some((Some(i), format!("block #{i} {:?}: {m}", blocks[i])));
                break;
            }
        }
        if bad.is_none() {
            let all: Vec<ExpDiag> = exps.iter().flatten().cloned().collect();
            let want = expected_exit(&all);
            if res.out.code != Some(want) {
                bad = Some((None, format!("exit status {:?}, expected {want} for {} expected diagnostics", res.out.code, all.len())));
            } else if all.is_empty() && !res.out.stderr.trim().is_empty() {
                bad = Some((None, format!("nothing to report but stderr is not empty: {:?}", crate::cli::trunc(&res.out.stderr, 300))));
            }
        }
    }
    let Some((idx, why)) = bad else { return Verdict::Pass };
    if blocks.len() == 1 {
        return Verdict::Fail(format!("{prop}: {why}\n--- file {} ---\n{}", host.file(), crate::cli::trunc(&r.text, 1500)));
    }
    // reduce: find a single block that fails alone
    let candidates: Vec<usize> = match idx {
        Some(i) => vec![i],
        None => (0..blocks.len()).collect(),
    };
    for i in candidates {
        let single = [blocks[i].clone()];
        let (r1, res1) = run_batch(host, &single, probe, &[]);
        let e1 = exp(i, &r1.pos[0]);
        let abnormal = res1.out.panicked() || !matches!(res1.out.code, Some(0) | Some(1)) || res1.parse_error.is_some();
        let mism = diff_block(&e1, &res1.per_block[0]);
        let exit_bad = res1.out.code != Some(expected_exit(&e1));
        if abnormal || mism.is_some() || exit_bad {
            return Verdict::FailReduced(
                format!(
                    "{prop}: block {:?}: {}\n--- file {} ---\n{}\n--- observed ---\n{}",
                    blocks[i],
                    mism.unwrap_or_else(|| "abnormal exit / exit status".into()),
                    host.file(),
                    r1.text,
                    res1.out.brief()
                ),
                reduce(i),
            );
        }
    }
    Verdict::Fail(format!("{prop}: fails only in batch context: {why}"))
}
