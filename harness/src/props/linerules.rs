//! Shared driver for the line-rule properties (C06–C09): run a batch, compare per block with the model's
//! expectation, reduce a failing batch to the single failing block.
use crate::engine::{Probe, Verdict};
use crate::rules::{BlockPos, ExpDiag, Host, Rendered, RuleBlock, diff_block, expected_exit, render_batch, run_rendered};
use serde_json::Value;

pub fn check_rule_batch(
    prop: &str,
    host: Host,
    blocks: &[RuleBlock],
    exp: &dyn Fn(usize, &BlockPos) -> Vec<ExpDiag>,
    probe: &Probe,
    reduce: &dyn Fn(usize) -> Value,
) -> Verdict {
    let render = |idx: &[usize]| -> Rendered {
        let sel: Vec<RuleBlock> = idx.iter().map(|&i| blocks[i].clone()).collect();
        render_batch(host, &sel)
    };
    let describe = |i: usize| format!("{:?}", blocks[i]);
    check_rendered_batch(prop, host.file(), blocks.len(), &render, &describe, exp, probe, reduce)
}

/// Generic form: `render(indices)` lays out the selected items in one file.
#[allow(clippy::too_many_arguments)]
pub fn check_rendered_batch(
    prop: &str,
    file: &str,
    n: usize,
    render: &dyn Fn(&[usize]) -> Rendered,
    describe: &dyn Fn(usize) -> String,
    exp: &dyn Fn(usize, &BlockPos) -> Vec<ExpDiag>,
    probe: &Probe,
    reduce: &dyn Fn(usize) -> Value,
) -> Verdict {
    let all_idx: Vec<usize> = (0..n).collect();
    let r = render(&all_idx);
    let res = run_rendered(file, &r, probe, &[], &[]);

    let exps: Vec<Vec<ExpDiag>> = (0..n).map(|i| exp(i, &r.pos[i])).collect();
    let mut bad: Option<(Option<usize>, String)> = None;
    if res.out.timed_out {
        return Verdict::Fail(format!("{prop}: run timed out: {}", res.out.brief()));
    }
    if res.out.panicked() || !matches!(res.out.code, Some(0) | Some(1)) {
        bad = Some((None, format!("abnormal exit: {}", res.out.brief())));
    } else if let Some(e) = &res.parse_error {
        bad = Some((None, format!("report does not parse: {e}; {}", res.out.brief())));
    } else if !res.stray.is_empty() {
        bad = Some((None, format!("diagnostics outside any block: {:?}", res.stray)));
    } else {
        for i in 0..n {
            if let Some(m) = diff_block(&exps[i], &res.per_block[i]) {
                bad = Some((Some(i), format!("block #{i} {}: {m}", describe(i))));
                break;
            }
        }
        if bad.is_none() {
            let all: Vec<ExpDiag> = exps.iter().flatten().cloned().collect();
            let want = expected_exit(&all);
            if res.out.code != Some(want) {
                bad = Some((None, format!("exit status {:?}, expected {want} for {} expected diagnostics", res.out.code, all.len())));
            } else if all.is_empty() && !res.out.stderr.trim().is_empty() {
                bad = Some((None, format!("nothing to report but stderr is not empty: {:?}", crate::cli::trunc(&res.out.stderr, 300))));
            }
        }
    }
    let Some((idx, why)) = bad else { return Verdict::Pass };
    if n == 1 {
        return Verdict::Fail(format!("{prop}: {why}\n--- file {file} ---\n{}\n--- observed ---\n{}", crate::cli::trunc(&r.text, 1500), res.out.brief()));
    }
    // reduce: find a single block that fails alone
    let candidates: Vec<usize> = match idx {
        Some(i) => vec![i],
        None => (0..n).collect(),
    };
    for i in candidates {
        let r1 = render(&[i]);
        let res1 = run_rendered(file, &r1, probe, &[], &[]);
        let e1 = exp(i, &r1.pos[0]);
        let abnormal = res1.out.panicked() || !matches!(res1.out.code, Some(0) | Some(1)) || res1.parse_error.is_some();
        let mism = diff_block(&e1, &res1.per_block[0]);
        let exit_bad = res1.out.code != Some(expected_exit(&e1));
        if abnormal || mism.is_some() || exit_bad {
            return Verdict::FailReduced(
                format!(
                    "{prop}: block {}: {}\n--- file {} ---\n{}\n--- observed ---\n{}",
                    describe(i),
                    mism.unwrap_or_else(|| "abnormal exit / exit status".into()),
                    file,
                    r1.text,
                    res1.out.brief()
                ),
                reduce(i),
            );
        }
    }
    Verdict::Fail(format!("{prop}: fails only in batch context: {why}"))
}
