use crate::engine::Run;

pub mod c06;
pub mod linerules;

pub const TABLE: &[(&str, fn(&mut Run))] = &[
    ("C06", c06::run),
];
