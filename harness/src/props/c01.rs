//! C01 — drift detection: a changed block forces its linked blocks to change.
use crate::builder::{self, Attr, Built, Ev, Place, StartTag, TruthBlock};
use crate::cli::{BwRun, Out, Sandbox};
use crate::diffread::{self, FileDiff};
use crate::engine::{Probe, Run, Verdict};
use crate::gitcase::{self, DiffMode, Edit, StatePair};
use crate::known;
use crate::langs::{self, SUFFIXES};
use crate::report::{Listed, parse_diags, parse_listing};
use proptest::prelude::*;
use serde::{Deserialize, Serialize};
use serde_json::json;
use std::collections::{BTreeMap, BTreeSet};

// (a name may hold a colon: a reference is `path:name` split at its FIRST colon, `:name` for the same file)
// (and characters of more than one byte: offsets inside a changed tag line are bytes, not characters)
pub const NAMES: &[&str] = &["a", "b", "c", "dup", "x-1", "ns:item", "größe"];

#[derive(Clone, Debug, Serialize, Deserialize, Hash, PartialEq, Eq)]
pub struct Ref {
    /// None = same file, Some(i) = file i (mod count), Some(255) = a file that does not exist
    pub file: Option<u8>,
    /// index into NAMES, 255 = a name no block has
    pub name: u8,
}

#[derive(Clone, Debug, Serialize, Deserialize, Hash, PartialEq, Eq)]
pub enum Item {
    Open {
        name: Option<u8>,
        affects: Vec<Ref>,
        form: u8,
        multiline: bool,
        indent: u8,
        /// spread the start tag itself over several lines (one attribute per line) where the comment form allows it
        #[serde(default)]
        tag_lines: bool,
        /// 0 no severity attribute, 1 `severity="warning"`, 2 `severity="Info"`: drift of such a block is reported but does not fail the run
        #[serde(default)]
        severity: u8,
    },
    Close { form: u8, indent: u8 },
    Code(u16),
}

#[derive(Clone, Debug, Serialize, Deserialize, Hash, PartialEq, Eq)]
pub struct DFile {
    pub suffix: usize,
    pub dir: u8,
    pub items: Vec<Item>,
    pub edits: Vec<Edit>,
    /// 0 modified in place, 1 renamed (old path differs), 2 new file, 3 untouched
    pub fate: u8,
    pub no_trailing_newline: bool,
    /// the OLD state of the file does not end with a newline (git then prints `\ No newline at end of file` inside the hunk)
    #[serde(default)]
    pub old_no_trailing_newline: bool,
    /// CRLF line terminators in the new state (and in the lines the old state shares with it)
    #[serde(default)]
    pub crlf: bool,
}

#[derive(Clone, Debug, Serialize, Deserialize, Hash, PartialEq, Eq)]
pub struct DriftCase {
    pub files: Vec<DFile>,
    pub mode: DiffMode,
    pub hostile: bool,
    pub deleted_extra_file: bool,
    /// other entries in the same diff: bit 0 a binary file changes, bit 1 an empty file is added,
    /// bit 2 a file of an unknown suffix changes, bit 3 a text file loses its only line
    #[serde(default)]
    pub extras: u8,
}

// (`f0/` next to a root file `f0.<ext>`, `src-gen/` next to `src/`: byte order and component order of such
// sibling paths disagree)
const DIRS: &[&str] = &["", "d/", "src/lib/", "a b/", "f0/", "src-gen/"];

pub fn path_of(i: usize, f: &DFile) -> String {
    let (suffix, _) = SUFFIXES[f.suffix % SUFFIXES.len()];
    let dir = DIRS[f.dir as usize % DIRS.len()];
    if langs::WHOLE_NAME_SUFFIXES.contains(&suffix) { format!("{dir}w{i}/{suffix}") } else { format!("{dir}f{i}.{suffix}") }
}

fn ref_text(r: &Ref, paths: &[String]) -> (Option<String>, String) {
    let file = match r.file {
        None => None,
        Some(255) => Some("no/such_file.py".to_string()),
        // the same file spelled with a leading `./` (whether that names the file is not stated; what IS stated is
        // that the verdict does not depend on where blockwatch is started)
        Some(i) if (200..204).contains(&i) => Some(format!("./{}", paths[(i - 200) as usize % paths.len()])),
        Some(i) => Some(paths[i as usize % paths.len()].clone()),
    };
    let name = if r.name == 255 { "missing".to_string() } else { NAMES[r.name as usize % NAMES.len()].to_string() };
    (file, name)
}

pub fn events_of(f: &DFile, paths: &[String]) -> Vec<Ev> {
    f.items
        .iter()
        .map(|it| match it {
            Item::Open { name, affects, form, multiline, indent, tag_lines, severity } => {
                let mut attrs: Vec<Attr> = vec![];
                if let Some(n) = name {
                    attrs.push(Attr::simple("name", NAMES[*n as usize % NAMES.len()]));
                }
                if !affects.is_empty() {
                    let mut seen = BTreeSet::new();
                    let mut parts = vec![];
                    for (k, r) in affects.iter().enumerate() {
                        let (file, name) = ref_text(r, paths);
                        if !seen.insert((file.clone(), name.clone())) {
                            continue; // references inside one attribute are distinct
                        }
                        let sep = if k % 2 == 0 { "" } else { " " };
                        parts.push(format!("{sep}{}:{name}", file.unwrap_or_default()));
                    }
                    attrs.push(Attr::simple("affects", &parts.join(",")));
                }
                match severity % 4 {
                    1 => attrs.push(Attr::simple("severity", "warning")),
                    2 => attrs.push(Attr::simple("severity", "Info")),
                    // an UNKNOWN severity only matters once the block has a violation to report (C13); a block
                    // whose links are all satisfied passes with it
                    3 => attrs.push(Attr::simple("severity", "warn")),
                    _ => {}
                }
                if *tag_lines {
                    for a in &mut attrs {
                        a.ws_before = "\n".to_string();
                    }
                }
                Ev::Open { tag: StartTag { attrs, ws_end: String::new() }, place: Place { form: *form, nl_before: *multiline, nl_after: *multiline, indent: *indent, ..Default::default() } }
            }
            Item::Close { form, indent } => Ev::Close { spelling: 0, place: Place { form: *form, indent: *indent, ..Default::default() } },
            Item::Code(i) => Ev::Code(*i),
        })
        .collect()
}

#[derive(Clone, Copy, Debug, PartialEq, Eq)]
pub enum Expect {
    MustModified,
    MustNot,
    Unspecified,
}

/// Lines (1-based, inclusive) of the comments holding a block's start and end tag.
pub fn tag_lines(text: &str, b: &TruthBlock) -> (usize, usize, usize, usize) {
    let s1 = builder::line_col(text, b.start_comment.0).0;
    let s2 = builder::line_col(text, b.start_comment.1 - 1).0;
    let e1 = builder::line_col(text, b.end_comment.0).0;
    let e2 = builder::line_col(text, b.end_comment.1 - 1).0;
    (s1, s2, e1, e2)
}

/// Oracle part 1, from the statement: modified iff the diff adds/edits/deletes a line strictly between the
/// start-tag comment and the end-tag comment; never when every change stays clear of the block and of the
/// lines adjoining its tag comments; undecided in between.
///
/// `own_line_tag`: Some((line, bytes before the comment)) when the start-tag comment sits on that one line and
/// runs to the line's very end (nothing, not even a `\r`, between the comment and the `\n`). A one-for-one
/// replacement of that line which keeps the bytes in front of the comment changes the comment only - not a line
/// between the two tag comments - so it does not stop the block from being clear of the diff.
pub fn expectation(fd: Option<&FileDiff>, lines: (usize, usize, usize, usize), same_comment: bool, own_line_tag: Option<(usize, usize)>) -> Expect {
    let Some(fd) = fd else { return Expect::MustNot };
    let (s1, s2, e1, e2) = lines;
    let mut must = false;
    let mut clear = true;
    for g in &fd.groups {
        if g.pure_deletion() {
            if !same_comment && s2 <= g.gap && g.gap + 1 <= e1 {
                must = true;
            }
            if g.gap + 2 >= s1 && g.gap <= e2 + 1 {
                clear = false;
            }
        } else {
            for (n, text) in &g.added {
                // an added line that repeats the old file's unterminated last line differs from it in the line
                // terminator only: whether that is an "edit" of the line is not stated
                let terminator_only = g.old_eof_marker && g.removed.last().is_some_and(|(_, old)| old == text);
                if !same_comment && s2 < *n && *n < e1 && !terminator_only {
                    must = true;
                }
                let comment_only = own_line_tag.is_some_and(|(l, p)| l == *n && g.removed.len() == 1 && g.added.len() == 1 && !g.old_eof_marker && text.get(..p).is_some() && g.removed[0].1.get(..p) == text.get(..p));
                if *n + 1 >= s1 && *n <= e2 + 1 && !comment_only {
                    clear = false;
                }
            }
            if g.mixed() && g.removed.len() > g.added.len() {
                // surplus removed lines of a mixed group went somewhere inside the group's span
                let lo = g.gap;
                let hi = g.added.last().unwrap().0;
                if hi + 2 >= s1 && lo <= e2 + 1 {
                    clear = false;
                }
            }
        }
    }
    if must {
        Expect::MustModified
    } else if clear {
        Expect::MustNot
    } else {
        Expect::Unspecified
    }
}

/// K2 shape, judged from the statement ("deletes a line lying between its start-tag comment and its end-tag
/// comment"): a change group that re-writes the block's own-line start-tag line and, right below the old tag
/// line, removes further lines that hold no tag (`-<tag> -l1 +<tag'>`), or re-writes its own-line end-tag line and
/// removes tag-less lines right above the old one (`-l2 -</block> +</block> x`). The removed lines sat between
/// the two tags, so the block is modified although no ADDED line lies inside it.
pub fn k2_must(fd: &FileDiff, lines: (usize, usize, usize, usize)) -> bool {
    let (s1, s2, e1, e2) = lines;
    let tagless = |t: &str| !t.contains("<block") && !t.contains("</") && !t.contains("block>");
    fd.groups.iter().any(|g| {
        if !(g.mixed() && g.added.len() == 1 && g.removed.len() >= 2 && !g.old_eof_marker) {
            return false;
        }
        let n = g.added[0].0;
        let below_start = s1 == s2 && n == s1 && g.removed[0].1.contains("<block") && g.added[0].1.contains("<block") && g.removed[1..].iter().all(|(_, t)| tagless(t));
        let above_end = e1 == e2 && n == e1 && g.removed.last().unwrap().1.contains("</block") && g.added[0].1.contains("</block") && g.removed[..g.removed.len() - 1].iter().all(|(_, t)| tagless(t));
        below_start || above_end
    })
}

/// K1 signature: the file's diff holds a pure-deletion group recorded at an old line number that differs
/// from its new-side position (any earlier net shift).
pub fn k1_shape(fd: &FileDiff) -> bool {
    fd.groups.iter().any(|g| g.pure_deletion() && g.removed[0].0 != g.gap + 1)
}

/// Would the observation be explained by recording pure deletions at their old line number (K1)?
/// A coarse what-if model of the implementation's line bookkeeping, used only to decide attribution.
fn k1_explains(fd: &FileDiff, lines: (usize, usize, usize, usize), observed_modified: bool) -> bool {
    let (_s1, s2, e1, _e2) = lines;
    let mut derived: Vec<usize> = vec![];
    let mut sure = false;
    let mut maybe = false;
    for g in &fd.groups {
        if g.pure_deletion() {
            let n = g.removed[0].0; // old number (K1)
            derived.push(n);
            if s2 < n && n <= e1 {
                sure = true;
            } else if n == s2 {
                maybe = true;
            }
        } else {
            for (i, (n, text)) in g.added.iter().enumerate() {
                derived.push(*n);
                let same_text = g.removed.get(i).is_some_and(|(_, old)| old == text);
                if same_text {
                    continue; // e.g. only the end-of-file newline changed: no changed characters
                }
                if s2 < *n && *n < e1 {
                    sure = true;
                } else if *n == s2 || *n == e1 {
                    maybe = true;
                }
            }
        }
    }
    if !derived.windows(2).all(|w| w[0] <= w[1]) {
        return true; // a search over an unsorted list can miss or hit anything
    }
    if observed_modified { sure || maybe } else { !sure }
}

pub struct World {
    pub paths: Vec<String>,
    pub built: Vec<Built>,
    pub new_text: Vec<String>,
}

pub fn world(c: &DriftCase) -> World {
    let paths: Vec<String> = c.files.iter().enumerate().map(|(i, f)| path_of(i, f)).collect();
    let mut built = vec![];
    let mut new_text = vec![];
    for f in &c.files {
        let lang = langs::lang(SUFFIXES[f.suffix % SUFFIXES.len()].1);
        let b = builder::build(lang, &events_of(f, &paths), f.crlf);
        let mut t = b.text.clone();
        if f.no_trailing_newline && t.ends_with('\n') {
            t.pop();
            if t.ends_with('\r') {
                t.pop();
            }
        }
        new_text.push(t);
        built.push(b);
    }
    World { paths, built, new_text }
}

fn variant(line: usize, text: &str) -> String {
    // every third replaced line differs from its old text in trailing blanks only (an edit all the same)
    if line % 3 == 1 {
        return format!("{text}  ");
    }
    // a different text for a replaced line: tag lines keep their shape but change an attribute character
    if let Some(p) = text.find("name=\"") {
        let mut t = text.to_string();
        t.insert(p + 6, 'Z');
        t
    } else if text.contains("<block") && text.contains('>') {
        text.replacen("<block", "<block was=\"1\"", 1)
    } else {
        format!("{text} /*old*/")
    }
}

pub fn state_pair(c: &DriftCase, w: &World) -> StatePair {
    let mut files = vec![];
    for (i, f) in c.files.iter().enumerate() {
        let new = w.new_text[i].clone();
        let mut old = gitcase::old_text(&new, &f.edits, c.hostile, &variant);
        if f.old_no_trailing_newline && old.ends_with('\n') {
            old.pop();
        }
        let entry = match f.fate % 4 {
            0 => (w.paths[i].clone(), Some(old), Some(new), None),
            1 => (w.paths[i].clone(), Some(old), Some(new), Some(format!("old_{i}_{}{}", if i % 2 == 1 { "señal_" } else { "" }, w.paths[i].replace('/', "_")))),
            2 => (w.paths[i].clone(), None, Some(new), None),
            _ => (w.paths[i].clone(), Some(new.clone()), Some(new), None),
        };
        files.push(entry);
    }
    if c.extras & 1 != 0 {
        files.push(("assets/blob.bin".into(), Some("\0\u{1}\u{2}binary-old".into()), Some("\0\u{1}\u{3}binary-new-longer".into()), None));
    }
    if c.extras & 2 != 0 {
        files.push(("empty_new.py".into(), None, Some(String::new()), None));
    }
    if c.extras & 4 != 0 {
        files.push(("notes.unknownext".into(), Some("# <block>\nold\n".into()), Some("# <block>\nnew </block> </block>\n".into()), None));
    }
    if c.extras & 8 != 0 {
        files.push(("emptied.py".into(), Some("x = 1\n".into()), Some(String::new()), None));
    }
    if c.extras & 16 != 0 {
        files.push(("@x:tools/run.sh".into(), Some("echo hi\n".into()), Some("echo hi\n".into()), None));
    }
    if c.extras & 32 != 0 {
        files.push(("@l:latest.py".into(), Some("f0.py".into()), Some("# <block name=\"lk\">\nx = 1\n# </block>\n".into()), None));
    }
    if c.deleted_extra_file {
        files.push(("gone.py".into(), Some("# <block name=\"g\">\nx = 1\n# </block>\n".into()), None, None));
    }
    StatePair { files }
}

fn find_listed<'a>(listing: &'a [Listed], file: &str, b: &TruthBlock) -> Option<&'a Listed> {
    listing.iter().find(|l| l.file == file && (l.line as usize, l.column as usize) == (b.line, b.col))
}

pub fn check(c: &DriftCase, probe: &Probe) -> Verdict {
    let w = world(c);
    for (i, f) in c.files.iter().enumerate() {
        let lid = SUFFIXES[f.suffix % SUFFIXES.len()].1;
        if langs::healthy(langs::lang(lid).id, &w.new_text[i]) == Some(false) {
            return Verdict::Unspecified("generated source is not accepted by the language's own grammar");
        }
    }
    let sb = Sandbox::new();
    let pair = state_pair(c, &w);
    let diff = gitcase::make_diff(&sb, &pair, &c.mode);
    let fds = match diffread::parse(&diff) {
        Ok(f) => f,
        Err(e) => panic!("harness diff reader failed: {e}\n{diff}"),
    };
    let fd_of = |path: &str| fds.iter().find(|f| f.new_path.as_deref() == Some(path));
    let show = |what: &str, o: &Out| {
        let files: Vec<String> = (0..c.files.len()).map(|i| format!("--- {} (new state) ---\n{}", w.paths[i], w.new_text[i])).collect();
        format!("C01: {what}\n{}\n--- git diff ({:?}) ---\n{}\n--- observed ---\n{}", files.join("\n"), c.mode, crate::cli::trunc(&diff, 6000), o.brief())
    };
    let k3 = fds.iter().any(FileDiff::has_header_lookalike_body_line);
    probe.child();
    let lo = sb.bw(&BwRun::diff(&["list"], diff.as_bytes()));
    if lo.timed_out || lo.panicked() {
        return Verdict::Fail(show("`list` crashed on a git diff", &lo));
    }
    if lo.code != Some(0) {
        if k3 && known::listed("K3") {
            probe.class("known:K3");
            return Verdict::Known("K3");
        }
        return Verdict::Fail(show("an ordinary git diff was not accepted", &lo));
    }
    let listing = match parse_listing(&lo.stdout) {
        Ok(l) => l,
        Err(e) => return Verdict::Fail(show(&e, &lo)),
    };
    // part 1: flags vs diff
    let mut n_must = 0;
    let mut n_mustnot = 0;
    let mut any_affects_must = false;
    let mut known_hit: Option<&'static str> = None;
    for (i, b) in w.built.iter().enumerate() {
        let fd = fd_of(&w.paths[i]);
        for t in &b.blocks {
            let lines = tag_lines(&w.new_text[i], t);
            let txt = &w.new_text[i];
            let own_line_tag = (lines.0 == lines.1 && !t.same_comment && txt[t.start_comment.1..].starts_with('\n')).then(|| (lines.0, t.start_comment.0 - txt[..t.start_comment.0].rfind('\n').map_or(0, |p| p + 1)));
            if own_line_tag.is_some_and(|(l, _)| fd.is_some_and(|fd| fd.groups.iter().any(|g| g.removed.len() == 1 && g.added.len() == 1 && g.added[0].0 == l))) {
                probe.class("edit:start-tag-comment-line-only");
            }
            let e = expectation(fd, lines, t.same_comment, own_line_tag);
            // lines deleted right below a re-written start-tag line / right above a re-written end-tag line
            let via_k2 = e != Expect::MustModified && !t.same_comment && fd.is_some_and(|fd| k2_must(fd, lines));
            let e = if via_k2 {
                probe.class("edit:lines-deleted-next-to-a-rewritten-tag-line(K2 shape)");
                Expect::MustModified
            } else {
                e
            };
            let l = find_listed(&listing, &w.paths[i], t);
            let observed = l.map(|l| l.modified);
            let bad = match e {
                Expect::MustModified => {
                    n_must += 1;
                    if t.attrs.contains_key("affects") {
                        any_affects_must = true;
                    }
                    observed != Some(true)
                }
                Expect::MustNot => {
                    n_mustnot += 1;
                    observed == Some(true)
                }
                Expect::Unspecified => false,
            };
            if bad {
                if k3 && known::listed("K3") {
                    // a body line printed as `--- …` / `+++ …` is taken for a file header: anything may follow
                    known_hit = Some("K3");
                    continue;
                }
                if via_k2 && known::listed("K2") {
                    known_hit = Some("K2");
                    continue;
                }
                if let Some(fd) = fd
                    && k1_shape(fd)
                    && k1_explains(fd, lines, observed == Some(true))
                    && known::listed("K1")
                {
                    known_hit = Some("K1");
                    continue;
                }
                return Verdict::Fail(show(
                    &format!(
                        "block at {}:{}:{} (tag comments on lines {:?}) is {} by the diff, but `list` says {:?}",
                        w.paths[i],
                        t.line,
                        t.col,
                        lines,
                        if e == Expect::MustModified { "MODIFIED (a line strictly inside it is added/edited/deleted)" } else { "NOT modified (every change is clear of it)" },
                        observed.map(|m| format!("is_content_modified={m}")).unwrap_or_else(|| "not listed".into())
                    ),
                    &lo,
                ));
            }
        }
    }
    let multi_hunk = fds.iter().any(|f| f.hunks >= 2);
    if multi_hunk && any_affects_must && n_mustnot >= 1 {
        probe.nontrivial();
    }
    probe.class_n("blocks:must-modified", n_must);
    probe.class_n("blocks:must-not", n_mustnot);
    probe.class(["git:unstaged", "git:cached", "git:HEAD", "git:commit-to-commit", "git:show"][c.mode.kind as usize % 5]);
    if fds.iter().any(k1_shape) {
        probe.class("diff-has-shifted-pure-deletion(K1 shape)");
    }
    for (needle, class) in [("\nold mode 100644\n", "diff:mode-only-entry"), ("\ndeleted file mode 120000\n", "diff:symlink-replaced-by-file"), ("\n\\ No newline at end of file\n+", "diff:eof-marker-inside-hunk"), ("\nBinary files ", "diff:binary-entry"), ("\nrename from ", "diff:rename")] {
        if diff.contains(needle) {
            probe.class(class);
        }
    }
    if let Some(k) = known_hit {
        probe.class(&format!("known:{k}"));
        return Verdict::Known(k);
    }
    if k3 {
        probe.class("diff-has-header-look-alike-body-line(K3 shape)");
        if known::listed("K3") {
            // later parts (diagnostics, repair) are not meaningful on a diff that is mis-read
            return Verdict::Known("K3");
        }
    }
    probe.sample(|| json!({"paths": w.paths, "mode": c.mode, "diff": crate::cli::trunc(&diff, 800), "listing": listing.iter().map(|l| format!("{}:{} {} modified={}", l.file, l.line, l.name, l.modified)).collect::<Vec<_>>()}));

    // part 2: diagnostics vs the observed flags (reference model of `affects`)
    probe.child();
    let vo = sb.bw(&BwRun::diff(&[], diff.as_bytes()));
    if vo.timed_out || vo.panicked() {
        return Verdict::Fail(show("validation run crashed", &vo));
    }
    // a modified block with an unknown severity AND a stale reference: the run must fail closed (C13), nothing
    // else is judged for such a case
    let modified_named0: BTreeSet<(String, String)> = listing.iter().filter(|l| l.modified && l.attrs.contains_key("name")).map(|l| (l.file.clone(), l.attrs["name"].clone())).collect();
    let unknown_severity_with_violation = listing.iter().filter(|l| l.modified && l.attrs.get("severity").map(String::as_str) == Some("warn")).any(|l| {
        l.attrs.get("affects").is_some_and(|a| {
            a.split(',').any(|r| {
                let (f, n) = r.trim().split_once(':').expect("generated references have a colon");
                let f = if f.trim().is_empty() { l.file.clone() } else { f.trim().to_string() };
                !modified_named0.contains(&(f, n.trim().to_string()))
            })
        })
    });
    if unknown_severity_with_violation {
        probe.class("unknown-severity-with-violation(fails closed)");
        if vo.code == Some(0) || parse_diags(&vo.stderr).is_ok_and(|d| !d.is_empty()) || vo.stderr.trim().is_empty() {
            return Verdict::Fail(show("a modified block with a stale reference and an unknown severity did not make the run fail with an error", &vo));
        }
        return Verdict::Pass;
    }
    let diags = match parse_diags(&vo.stderr) {
        Ok(d) => d,
        Err(e) => return Verdict::Fail(show(&format!("validation run on an accepted diff: {e}"), &vo)),
    };
    let modified_named: BTreeSet<(String, String)> = listing.iter().filter(|l| l.modified && l.attrs.contains_key("name")).map(|l| (l.file.clone(), l.attrs["name"].clone())).collect();
    let mut want: Vec<(String, u64, u64, String, String)> = vec![];
    let mut want_error = false;
    for l in listing.iter().filter(|l| l.modified) {
        if let Some(a) = l.attrs.get("affects") {
            for r in a.split(',') {
                let r = r.trim();
                let (f, n) = r.split_once(':').expect("generated references have a colon");
                let f = if f.trim().is_empty() { l.file.clone() } else { f.trim().to_string() };
                let n = n.trim().to_string();
                if !modified_named.contains(&(f.clone(), n.clone())) {
                    want.push((l.file.clone(), l.line, l.column, f, n));
                    if !l.attrs.contains_key("severity") {
                        want_error = true;
                    }
                }
            }
        }
    }
    want.sort();
    let mut got: Vec<(String, u64, u64, String, String)> = vec![];
    for d in &diags {
        if d.code != "affects" {
            return Verdict::Fail(show(&format!("unexpected diagnostic {d:?}"), &vo));
        }
        let data = d.data_json();
        got.push((
            d.file.clone(),
            d.sl,
            d.sc,
            data.get("affected_block_file_path").and_then(|v| v.as_str()).unwrap_or("?").to_string(),
            data.get("affected_block_name").and_then(|v| v.as_str()).unwrap_or("?").to_string(),
        ));
    }
    got.sort();
    if got != want {
        return Verdict::Fail(show(&format!("affects diagnostics differ from the reference model over the listed flags\n expected (file, line, col, target file, target name): {want:?}\n observed: {got:?}"), &vo));
    }
    let want_exit = if want_error { 1 } else { 0 };
    if vo.code != Some(want_exit) {
        return Verdict::Fail(show(&format!("exit status {:?}, expected {want_exit}", vo.code), &vo));
    }
    if want.is_empty() && !vo.stderr.trim().is_empty() {
        return Verdict::Fail(show("no drift but stderr is not empty", &vo));
    }
    if !want.is_empty() {
        probe.class("drift-reported");
    }

    // part 3: repair metamorphosis — touch every referenced block (transitively); the run must then pass.
    if !want.is_empty() && !fds.iter().any(k1_shape) && !k3 {
        return repair(c, &w, probe);
    }
    Verdict::Pass
}

/// Inserts one content line into every block that is referenced (transitively) by a modified block and is
/// not modified yet; when every reference resolves, the re-diffed run must exit 0.
fn repair(c: &DriftCase, w: &World, probe: &Probe) -> Verdict {
    // blocks by (file index, name)
    let mut by_name: BTreeMap<(usize, String), Vec<usize>> = BTreeMap::new();
    for (i, b) in w.built.iter().enumerate() {
        for (k, t) in b.blocks.iter().enumerate() {
            if let Some(n) = t.attrs.get("name") {
                by_name.entry((i, n.clone())).or_default().push(k);
            }
        }
    }
    // Touch ALL blocks of every file that take part (simplest fixpoint: every block with content gets a new line),
    // provided every reference of every block resolves to an existing block that can hold a line.
    for (i, b) in w.built.iter().enumerate() {
        for t in &b.blocks {
            if let Some(a) = t.attrs.get("affects") {
                for r in a.split(',') {
                    let (f, n) = r.trim().split_once(':').unwrap();
                    let fi = if f.trim().is_empty() { Some(i) } else { w.paths.iter().position(|p| p == f.trim()) };
                    let Some(fi) = fi else { return Verdict::Pass };
                    let Some(ks) = by_name.get(&(fi, n.trim().to_string())) else { return Verdict::Pass };
                    if ks.iter().all(|k| w.built[fi].blocks[*k].same_comment) {
                        return Verdict::Pass; // a block without content cannot be touched
                    }
                }
            }
        }
    }
    // new2: insert a line right after the start-tag comment's last line of every block that has content
    let sb = Sandbox::new();
    let mut files = vec![];
    for (i, b) in w.built.iter().enumerate() {
        let old = w.new_text[i].clone();
        let mut insert_after: BTreeSet<usize> = BTreeSet::new();
        for t in &b.blocks {
            if !t.same_comment {
                let (_, s2, e1, _) = tag_lines(&w.new_text[i], t);
                if e1 > s2 {
                    insert_after.insert(s2);
                }
            }
        }
        let lang = langs::lang(SUFFIXES[c.files[i].suffix % SUFFIXES.len()].1);
        let filler = if lang.markdown { "\ntouched paragraph\n".to_string() } else { lang.code.iter().find(|c| !c.contains('\n')).unwrap().replace("{n}", "99999") };
        let mut out = String::new();
        for (ln, l) in old.split_inclusive('\n').enumerate() {
            out.push_str(l);
            if insert_after.contains(&(ln + 1)) {
                if !l.ends_with('\n') {
                    out.push('\n');
                }
                out.push_str(&filler);
                out.push('\n');
            }
        }
        files.push((w.paths[i].clone(), Some(old), Some(out), None));
    }
    let mode = DiffMode { unified: c.mode.unified, kind: c.mode.kind, algo: 0, renames: false };
    let diff = gitcase::make_diff(&sb, &StatePair { files }, &mode);
    probe.child();
    let o = sb.bw(&BwRun::diff(&[], diff.as_bytes()));
    probe.class("repair-metamorphosis");
    if o.code != Some(0) || !o.stderr.trim().is_empty() {
        // inline / same-line blocks cannot be touched by a line insertion: only complain when every block was touched
        let listing = sb.bw(&BwRun::diff(&["list"], diff.as_bytes()));
        let all_touched = parse_listing(&listing.stdout).map(|l| {
            w.built.iter().enumerate().all(|(i, b)| b.blocks.iter().all(|t| !t.attrs.contains_key("name") || l.iter().any(|x| x.file == w.paths[i] && x.attrs.get("name") == t.attrs.get("name") && x.modified)))
        });
        if all_touched == Ok(true) {
            return Verdict::Fail(format!("C01: after touching every linked block the run still fails\n--- diff ---\n{}\n--- observed ---\n{}", crate::cli::trunc(&diff, 4000), o.brief()));
        }
    }
    Verdict::Pass
}

pub fn file_strategy() -> BoxedStrategy<DFile> {
    let r = (prop_oneof![3 => Just(None), 2 => (0u8..4).prop_map(Some), 1 => Just(Some(255u8)), 1 => (200u8..204).prop_map(Some)], prop_oneof![5 => 0u8..7, 1 => Just(255u8)]).prop_map(|(file, name)| Ref { file, name });
    let open = (proptest::option::weighted(0.8, 0u8..7), prop_oneof![2 => Just(vec![]), 2 => proptest::collection::vec(r, 1..4)], any::<u8>(), proptest::bool::weighted(0.15), prop_oneof![3 => Just(0u8), 1 => 0u8..5], proptest::bool::weighted(0.12), prop_oneof![4 => Just(0u8), 1 => 1u8..4])
        .prop_map(|(name, affects, form, multiline, indent, tag_lines, severity)| Item::Open { name, affects, form, multiline, indent, tag_lines, severity });
    let close = (any::<u8>(), prop_oneof![3 => Just(0u8), 1 => 0u8..5]).prop_map(|(form, indent)| Item::Close { form, indent });
    let item = prop_oneof![2 => open, 2 => close, 5 => any::<u16>().prop_map(Item::Code)];
    (0..SUFFIXES.len(), 0u8..6, proptest::collection::vec(item, 3..30), gitcase::edits_strategy(9), prop_oneof![6 => Just(0u8), 1 => Just(1u8), 1 => Just(2u8), 1 => Just(3u8)], proptest::bool::weighted(0.15), proptest::bool::weighted(0.25), proptest::bool::weighted(0.1))
        .prop_map(|(suffix, dir, items, edits, fate, no_trailing_newline, old_no_trailing_newline, crlf)| DFile { suffix, dir, items, edits, fate, no_trailing_newline, old_no_trailing_newline, crlf })
        .boxed()
}

pub fn case_strategy() -> BoxedStrategy<DriftCase> {
    (proptest::collection::vec(file_strategy(), 1..5), gitcase::mode_strategy(), proptest::bool::weighted(0.1), proptest::bool::weighted(0.1), prop_oneof![3 => Just(0u8), 1 => 0u8..64])
        .prop_map(|(files, mode, hostile, deleted_extra_file, extras)| DriftCase { files, mode, hostile, deleted_extra_file, extras })
        .boxed()
}

/// Exhaustive small scope: every edit script of at most two single-line operations (add a line, delete a
/// line at a gap, replace a line) at every position of a fixed nine-line file with a nested pair of blocks,
/// the outer one linked to the inner one, under -U0 and -U3.
pub fn small_scope_cases() -> Vec<DriftCase> {
    let py = SUFFIXES.iter().position(|(s, _)| *s == "py").unwrap();
    let items = vec![
        Item::Code(0),
        Item::Open { name: Some(6), affects: vec![Ref { file: None, name: 1 }], form: 0, multiline: false, indent: 0, tag_lines: false, severity: 0 },
        Item::Code(0),
        Item::Open { name: Some(1), affects: vec![], form: 0, multiline: false, indent: 0, tag_lines: false, severity: 0 },
        Item::Code(0),
        Item::Close { form: 0, indent: 0 },
        Item::Code(0),
        Item::Close { form: 0, indent: 0 },
        Item::Code(0),
    ];
    let n = 9usize;
    let at = |p: usize, len: usize| -> u16 { ((p * 65536).div_ceil(len)).min(65535) as u16 };
    let mut ops: Vec<Edit> = vec![];
    for p in 0..n {
        ops.push(Edit::Add { at: at(p, n), k: 1 });
        ops.push(Edit::Rep { at: at(p, n) });
    }
    for g in 0..=n {
        ops.push(Edit::Del { at: at(g, n + 1), k: 1 });
    }
    let mut scripts: Vec<Vec<Edit>> = ops.iter().map(|o| vec![o.clone()]).collect();
    for a in &ops {
        for b in &ops {
            scripts.push(vec![a.clone(), b.clone()]);
        }
    }
    let mut out = vec![];
    for sc in scripts {
        for unified in [0u8, 3] {
            out.push(DriftCase {
                files: vec![DFile { suffix: py, dir: 0, items: items.clone(), edits: sc.clone(), fate: 0, no_trailing_newline: false, old_no_trailing_newline: false, crlf: false }],
                mode: DiffMode { unified, kind: 0, algo: 0, renames: false },
                hostile: false,
                deleted_extra_file: false,
                extras: 0,
            });
        }
    }
    out
}

pub fn run(run: &mut Run) {
    run.rule = "enumerated small scope: every edit script of <= 2 single-line operations at every position of a fixed nine-line Python file with nested, linked blocks under -U0 and -U3 (1 624 cases). random: 1..4 files of random suffixes (root or sub-directories, one with a space, two whose names sort differently by bytes and by path components: `f0/` next to `f0.<ext>`, `src-gen/` next to `src/`), each a balanced list of own-line tag comments (any comment form of the language, 15% multi-line comments, 12% start tags spread over several lines, indentation), blocks named from a pool of 7 (duplicates, unnamed, one name holding a colon, one holding two-byte characters) with affects lists of 1..3 references (same file, other file, another file spelled with a leading `./`, missing file, missing name, cycles), 20% of them with severity warning / Info (reported, not failing) or the unknown value `warn` (harmless while every link of the block is satisfied, a hard error once it has a stale one) and code lines; an edit script of 0..8 operations on new-side lines (add k lines, delete k lines at a gap, replace a line incl. tag lines; every third replacement differs in trailing blanks only) from which the old state is derived; file fates modified / renamed / new / untouched / an extra deleted file; in 25% further entries in the same diff (a binary file, an added empty file, a changed file of unknown suffix holding unbalanced tags, a file emptied, a mode-only change, a symbolic link replaced by a regular file); hostile removed lines (`-- x`, `--- a/f`, `@@ -1 +1 @@`, …) in 10%; missing trailing newline in 15% (new state) / 25% (old state); CRLF files in 10%; real git in a generated mode (-U0..10, unstaged/--cached/HEAD/commit-to-commit/`git show` of the commit (header and message in front of the diff), 4 diff algorithms, -M). Oracle part 1: flag per block from an independent reader of git's diff (must / must-not / unspecified zones; tag-less lines removed right below a re-written own-line start-tag line or right above a re-written own-line end-tag line count as deleted inside the block - mismatches of exactly that shape are attributed to listed finding K2), part 2: affects diagnostics = reference model over the listed flags, exit status; part 3: after touching every linked block the run passes. Non-trivial = a file with >= 2 hunks, a must-modified block with affects and a must-not block.".into();
    run.assumptions = vec![
        "new-side file names avoid characters git C-quotes (the old name of every second renamed file holds non-ASCII letters and is printed C-quoted)".into(),
        "mixed -/+ groups count through their added lines, plus one shape of surplus removed lines that the diff itself places inside the block: tag-less lines removed right below a re-written own-line start-tag line or right above a re-written own-line end-tag line (listed finding K2); other surplus removed lines of a mixed group are not asserted".into(),
        "changes touching or adjoining a tag comment line are unspecified for that block".into(),
    ];
    run.sentinel("K1", "drift", check);
    run.sentinel("K3", "drift", check);
    run.sentinel("K2", "drift", check);
    run.enumerate("small-scope", small_scope_cases(), Some("all edit scripts of <= 2 single-line operations (add / delete at a gap / replace, every position) on a fixed nine-line file with a nested, linked pair of blocks x -U0 / -U3"), check);
    run.shrink_iters = 250;
    run.random("drift", run.tier.pick(1500, 40000), case_strategy, check);
}
