//! C04 — no crash or hang on any input.
use crate::cli::{BwRun, Out, Sandbox};
use crate::engine::{Probe, Run, Verdict, pick_idx};
use crate::langs::{self, SUFFIXES};
use proptest::prelude::*;
use serde::{Deserialize, Serialize};
use serde_json::json;

pub const TOKENS: &[&str] = &[
    "//", "///", "//!", "/*", "*/", "/**", "*", "#", "#!", "--", "<!--", "-->", "--!>", "<!-->", "<!--->", "[//]:", "[//]: #", "[//]: # (", ")", "(", "\"", "'", "`", "```", "\"\"\"", "r#\"", "\"#",
    "<block", "<block>", "</block>", "<block name=\"a\">", "<block keep-sorted>", "<block keep-unique=\"(\">", "<block line-count=\"<3\">", "<block line-pattern=\"[\">", "<block affects=\":a\">",
    "</ block >", "< / block>", "name=", "=", ">", "<", "/", "</", "block", "<block ", " keep-sorted=\"desc\"", "<block\n", "<block a='", "<block a=\"",
    "\n", "\n\n", "\r\n", "\r", "\t", " ", "  ", "\u{a0}", "\u{200b}", "😀", "e\u{301}", "é", "日本語", "\u{feff}", "\\", "\\\n", ";", "{", "}", "[", "]", "$", "@", "%",
    // multi-byte / exotic whitespace, alone and at structural positions
    "\u{2003}", "\u{3000}", "\u{2028}", "\u{85}", "\u{b}", "\u{c}", "/*\u{a0}", "/**\n\u{a0}*", "\n\u{a0}", "\n\u{3000}* ", "\n\u{2003}", "//\u{a0}", "#\u{3000}", "<!--\u{a0}", "--\u{a0}",
    "\u{a0}<block>", "<block\u{a0}name=\"a\">", "<block\u{3000}>", "</block\u{a0}>", "</\u{2003}block>", "<block a=\u{a0}\"1\">", "<block a\u{a0}=\"1\">", "[//]:\u{a0}#\u{a0}(", "\u{a0}*/", "\u{a0}-->",
    "<<EOF", "EOF", "<?php", "?>", "<?", "=begin", "=end", "<![CDATA[", "]]>", "<root>", "</root>", "<p>", "</p>", "<script>", "</script>", "<style>", "> ", "- ", "1. ", "    ", "---", "***", "|",
    "a", "x = 1", "fn f() {}", "int a;", "def f(): pass", "package main", "SELECT 1;", "key: value", "k = \"v\"", "all:", "\techo hi", "let s = \"", "/* c */", "// c", "# c", "-- c", "<!-- c -->",
];

#[derive(Clone, Debug, Serialize, Deserialize)]
pub struct Soup {
    pub tokens: Vec<u16>,
    pub spaced: bool,
}

impl Soup {
    pub fn text(&self) -> String {
        let mut s = String::new();
        for (i, t) in self.tokens.iter().enumerate() {
            if i > 0 && self.spaced {
                s.push(' ');
            }
            s.push_str(TOKENS[pick_idx(*t, TOKENS.len())]);
        }
        s
    }
}

fn degenerate(text: &str) -> bool {
    // non-trivial rule: an unterminated or degenerate comment opener, or a half-written tag
    let opens = text.matches("/*").count();
    let closes = text.matches("*/").count();
    opens != closes
        || text.matches("<!--").count() != text.matches("-->").count()
        || text.contains("<block ") && !text.contains('>')
        || text.contains("<block a=")
        || text.contains("[//]:")
        || text.contains("<!-->")
}

thread_local! {
    static FAST: std::cell::Cell<bool> = const { std::cell::Cell::new(false) };
}

/// Does the language's own grammar (tree-sitter alone, no blockwatch code) terminate on this text?
/// Run in a child process so that it can be killed.
fn grammar_terminates(suffix: &str, text: &str) -> Option<bool> {
    let lang = langs::lang_of_suffix(suffix);
    langs::ts_language(lang.id)?;
    let dir = Sandbox::new();
    dir.write("probe.txt", text.as_bytes());
    let exe = std::env::current_exe().ok()?;
    let mut c = std::process::Command::new(exe);
    c.arg("__tsparse").arg(lang.id).arg(dir.root.join("probe.txt"));
    let o = crate::cli::run_cmd(c, None, if FAST.with(|f| f.get()) { 5 } else { 20 });
    Some(!o.timed_out)
}

/// Hang triage: 3 CLI runs with a 30 s limit; when all exceed it, ask the grammar alone.
fn hang_verdict(suffix: &str, file: &str, text: &str, probe: &Probe) -> Verdict {
    let sb = Sandbox::with_fake_git();
    sb.write(file, text.as_bytes());
    let fast = FAST.with(|f| f.get());
    let mut r = BwRun::scan(&[file]);
    r.timeout_s = Some(if fast { 10 } else { 30 });
    let all = (0..if fast { 1 } else { 3 }).all(|_| {
        probe.child();
        sb.bw(&r).timed_out
    });
    if !all {
        return Verdict::Unspecified("slow in-process run that the CLI does not reproduce (inconclusive)");
    }
    if grammar_terminates(suffix, text) == Some(false) {
        probe.class("hang-inside-tree-sitter-grammar");
        if crate::known::listed("K6") {
            return Verdict::Known("K6");
        }
        return Verdict::Fail(format!("C04 [{suffix}]: blockwatch does not terminate (3 x 30 s on the CLI) on a {}-byte input; the language's tree-sitter grammar alone does not terminate on it either\n--- {file} ---\n{text:?}", text.len()));
    }
    Verdict::Fail(format!("C04 [{suffix}]: blockwatch does not terminate (3 x 30 s on the CLI) on a {}-byte input although the grammar alone parses it\n--- {file} ---\n{text:?}", text.len()))
}

/// Confirms an in-process failure on the real CLI in scan, list and diff mode.
fn confirm_on_cli(file: &str, text: &str, probe: &Probe) -> Option<(String, Out)> {
    let sb = Sandbox::new();
    sb.init_repo();
    sb.commit_all("base");
    sb.write(file, text.as_bytes());
    let mut runs: Vec<(String, BwRun)> = vec![("scan".into(), BwRun::scan(&[file])), ("list".into(), BwRun::scan(&["list", file]))];
    sb.git_ok(&["add", "-A", "-f"]);
    let d = sb.git_diff(&["--cached"]);
    runs.push(("diff".into(), BwRun::diff(&[], d.as_bytes())));
    runs.push(("diff-list".into(), BwRun::diff(&["list"], d.as_bytes())));
    for (mode, mut r) in runs {
        r.timeout_s = Some(30);
        probe.child();
        let o = sb.bw(&r);
        if bad_exit(&o).is_some() {
            return Some((mode, o));
        }
    }
    None
}

fn bad_exit(o: &Out) -> Option<String> {
    if o.timed_out {
        return Some("did not terminate within the time limit".into());
    }
    if o.panicked() {
        return Some("panicked / aborted".into());
    }
    if !matches!(o.code, Some(0) | Some(1)) {
        return Some(format!("exit status {:?}", o.code));
    }
    if o.code == Some(1) && o.stderr.trim().is_empty() {
        return Some("exit 1 without a report or a readable error".into());
    }
    None
}

fn in_process_all_suffixes(text: &str, suffixes: &[usize], probe: &Probe) -> Verdict {
    for &si in suffixes {
        let (suffix, _) = SUFFIXES[si];
        let file = langs::file_name("soup", suffix);
        let req = crate::pool::Req { files: vec![(file.clone(), text.to_string())], validate: true };
        let r = crate::pool::call(&req, std::time::Duration::from_secs(if FAST.with(|f| f.get()) { 5 } else { 20 }));
        probe.evals(1);
        match r {
            Ok(resp) if resp.outcome == "ok" => probe.class("in-process:report"),
            Ok(resp) if resp.outcome == "err" => probe.class("in-process:readable-error"),
            Ok(resp) => {
                probe.class("in-process:panic");
                let msg = resp.msg;
                return match confirm_on_cli(&file, text, probe) {
                    Some((mode, o)) => Verdict::Fail(format!(
                        "C04 [{suffix}]: panic in-process ({msg}) and on the CLI in {mode} mode: {}\n--- {file} ({} bytes) ---\n{:?}\n--- observed ---\n{}",
                        bad_exit(&o).unwrap(),
                        text.len(),
                        text,
                        o.brief()
                    )),
                    None => Verdict::Fail(format!("C04 [{suffix}]: HARNESS DISCREPANCY: in-process panic ({msg}) that the CLI does not show\n--- {file} ---\n{text:?}")),
                };
            }
            Err(crate::pool::CallError::Timeout) => {
                probe.class("in-process:exceeded-20s");
                match hang_verdict(suffix, &file, text, probe) {
                    Verdict::Unspecified(_) => continue,
                    v => return v,
                }
            }
            Err(crate::pool::CallError::Died) => {
                // the worker process died (abort / stack overflow / signal): confirm on the CLI
                probe.class("in-process:worker-died");
                return match confirm_on_cli(&file, text, probe) {
                    Some((mode, o)) => Verdict::Fail(format!("C04 [{suffix}]: the library aborted in-process and the CLI fails in {mode} mode: {}\n--- {file} ---\n{text:?}\n{}", bad_exit(&o).unwrap(), o.brief())),
                    None => Verdict::Fail(format!("C04 [{suffix}]: HARNESS DISCREPANCY: worker process died on an input the CLI handles\n--- {file} ---\n{text:?}")),
                };
            }
        }
    }
    Verdict::Pass
}

pub fn check_soup(s: &Soup, probe: &Probe) -> Verdict {
    let text = s.text();
    if degenerate(&text) {
        probe.nontrivial();
    }
    probe.sample(|| json!({"soup": crate::cli::trunc(&text, 300)}));
    let all: Vec<usize> = (0..SUFFIXES.len()).collect();
    in_process_all_suffixes(&text, &all, probe)
}

#[derive(Clone, Debug, Serialize, Deserialize)]
pub enum MutOp {
    Delete(u16, u16),
    Duplicate(u16, u16),
    Insert(u16, u16),
    Truncate(u16),
    Swap(u16, u16, u16),
}

#[derive(Clone, Debug, Serialize, Deserialize)]
pub struct Mutant {
    pub seed: u16,
    pub ops: Vec<MutOp>,
}

pub struct Seed {
    pub suffix: usize,
    pub text: String,
    pub origin: String,
}

fn floor_boundary(s: &str, mut i: usize) -> usize {
    i = i.min(s.len());
    while !s.is_char_boundary(i) {
        i -= 1;
    }
    i
}

pub fn seeds() -> &'static Vec<Seed> {
    static S: std::sync::OnceLock<Vec<Seed>> = std::sync::OnceLock::new();
    S.get_or_init(|| {
        let mut out = vec![];
        // golden files of every (suffix, form)
        for c in super::c03::golden_cases() {
            // (C03's oversized variants — 70 000 empty lines, a 70 000-byte attribute — are not seeds for byte-level sweeps)
            if c.far || matches!(c.events.get(1), Some(crate::builder::Ev::Open { tag, .. }) if tag.attrs.len() > 1) {
                continue;
            }
            let p = super::c03::prepare(&c);
            out.push(Seed { suffix: c.suffix, text: p.built.text, origin: format!("golden:{}", p.suffix) });
        }
        // the repository's own sources and test data (lossy UTF-8), capped at 8 KiB
        let repo = std::env::var("BWV_REPO").unwrap_or_else(|_| "/repo".into());
        let mut stack = vec![std::path::PathBuf::from(&repo).join("src"), std::path::PathBuf::from(&repo).join("tests"), std::path::PathBuf::from(&repo).join("scripts")];
        let mut files = vec![std::path::PathBuf::from(&repo).join("README.md"), std::path::PathBuf::from(&repo).join("Cargo.toml")];
        while let Some(d) = stack.pop() {
            if let Ok(rd) = std::fs::read_dir(&d) {
                let mut es: Vec<_> = rd.filter_map(|e| e.ok()).map(|e| e.path()).collect();
                es.sort();
                for p in es {
                    if p.is_dir() { stack.push(p) } else { files.push(p) }
                }
            }
        }
        files.sort();
        for f in files {
            let name = f.file_name().unwrap().to_string_lossy().to_string();
            let Some(suffix) = super::c16::resolve(&name, &[]) else { continue };
            let si = SUFFIXES.iter().position(|(s, _)| *s == suffix).unwrap();
            if let Ok(bytes) = std::fs::read(&f) {
                let text = String::from_utf8_lossy(&bytes).into_owned();
                let cut = floor_boundary(&text, 8192);
                out.push(Seed { suffix: si, text: text[..cut].to_string(), origin: f.display().to_string() });
            }
        }
        out
    })
}

pub fn apply(text: &str, ops: &[MutOp]) -> String {
    let mut s = text.to_string();
    for op in ops {
        let n = s.len();
        let at = |x: u16| floor_boundary(&s, pick_idx(x, n + 1));
        match op {
            MutOp::Delete(a, l) => {
                let i = at(*a);
                let j = floor_boundary(&s, i + (*l as usize % 64));
                s.replace_range(i..j.max(i), "");
            }
            MutOp::Duplicate(a, l) => {
                let i = at(*a);
                let j = floor_boundary(&s, i + (*l as usize % 64));
                let span = s[i..j.max(i)].to_string();
                s.insert_str(i, &span);
            }
            MutOp::Insert(a, t) => {
                let i = at(*a);
                s.insert_str(i, TOKENS[pick_idx(*t, TOKENS.len())]);
            }
            MutOp::Truncate(a) => {
                let i = at(*a);
                s.truncate(i);
            }
            MutOp::Swap(a, b, l) => {
                let i = at(*a);
                let j = at(*b);
                let (i, j) = (i.min(j), i.max(j));
                let e = floor_boundary(&s, j + (*l as usize % 32));
                let span = s[j..e.max(j)].to_string();
                s.replace_range(j..e.max(j), "");
                s.insert_str(i, &span);
            }
        }
        if s.len() > 16384 {
            let c = floor_boundary(&s, 16384);
            s.truncate(c);
        }
    }
    s
}

pub fn check_mutant(m: &Mutant, probe: &Probe) -> Verdict {
    let sd = seeds();
    let seed = &sd[pick_idx(m.seed, sd.len())];
    let text = apply(&seed.text, &m.ops);
    if degenerate(&text) {
        probe.nontrivial();
    }
    probe.class(if seed.origin.starts_with("golden") { "seed:golden" } else { "seed:repository-file" });
    probe.sample(|| json!({"seed": seed.origin, "ops": m.ops, "mutant_head": crate::cli::trunc(&text, 200)}));
    in_process_all_suffixes(&text, &[seed.suffix], probe)
}

#[derive(Clone, Debug, Serialize, Deserialize)]
pub struct CliCase {
    pub mutant: Mutant,
    pub second: Vec<MutOp>,
    /// also try the text under this other suffix
    pub other_suffix: u16,
}

/// CLI part: seed committed, mutant in the working tree, real `git diff` piped in; scan and list as well.
pub fn check_cli(c: &CliCase, probe: &Probe) -> Verdict {
    let sd = seeds();
    let seed = &sd[pick_idx(c.mutant.seed, sd.len())];
    let old = apply(&seed.text, &c.mutant.ops);
    let new = apply(&old, &c.second);
    if degenerate(&new) || degenerate(&old) {
        probe.nontrivial();
    }
    let s1 = SUFFIXES[seed.suffix].0;
    let s2 = SUFFIXES[pick_idx(c.other_suffix, SUFFIXES.len())].0;
    let f1 = langs::file_name("m", s1);
    let f2 = if s2 == s1 { langs::file_name("n", s2) } else { langs::file_name("m", s2) };
    let f2 = if f2 == f1 { format!("sub/{f2}") } else { f2 };
    let sb = Sandbox::new();
    sb.init_repo();
    sb.write(&f1, old.as_bytes());
    sb.write(&f2, old.as_bytes());
    sb.commit_all("old");
    sb.write(&f1, new.as_bytes());
    sb.write(&f2, new.as_bytes());
    let u = (c.other_suffix % 4).to_string();
    let d = sb.git_diff(&[&format!("-U{u}")]);
    let show = |what: &str, mode: &str, o: &Out| {
        format!("C04 [{s1}/{s2}]: {what} in {mode} mode\n--- old ({} bytes) ---\n{:?}\n--- new ({} bytes) ---\n{:?}\n--- diff ---\n{}\n--- observed ---\n{}", old.len(), crate::cli::trunc(&old, 2000), new.len(), crate::cli::trunc(&new, 2000), crate::cli::trunc(&d, 1500), o.brief())
    };
    let runs: Vec<(&str, BwRun)> = vec![
        ("diff", BwRun::diff(&[], d.as_bytes())),
        ("diff-list", BwRun::diff(&["list"], d.as_bytes())),
        ("scan", BwRun::scan(&[&f1])),
        ("list", BwRun::scan(&["list", &f2])),
    ];
    let mut walls = vec![];
    for (mode, mut r) in runs {
        r.timeout_s = Some(30);
        probe.child();
        probe.evals(1);
        let o = sb.bw(&r);
        walls.push(o.wall_ms);
        if o.timed_out {
            // hang rule: reproduced 3/3 alone, otherwise inconclusive
            let again = (0..2).all(|_| sb.bw(&r).timed_out);
            if again {
                for (sfx, txt) in [(s1, &new), (s2, &new)] {
                    if grammar_terminates(sfx, txt) == Some(false) {
                        probe.class("hang-inside-tree-sitter-grammar");
                        if crate::known::listed("K6") {
                            return Verdict::Known("K6");
                        }
                    }
                }
                return Verdict::Fail(show("does not terminate (3/3 runs exceeded 30 s on an input of a few KiB)", mode, &o));
            }
            return Verdict::Unspecified("one slow run that did not reproduce (inconclusive)");
        }
        if let Some(why) = bad_exit(&o) {
            return Verdict::Fail(show(&why, mode, &o));
        }
        probe.class(match (mode, o.code) {
            (_, Some(0)) => "cli:exit0",
            _ => "cli:exit1",
        });
    }
    probe.sample(|| json!({"files": [f1, f2], "seed": seed.origin, "diff_bytes": d.len(), "wall_ms": walls}));
    Verdict::Pass
}

/// Other ways of asking git for a diff: option sets that change the output's shape, and the combined / mail /
/// log forms. (index into DIFF_OPTS)
pub const DIFF_OPTS: &[&[&str]] = &[
    &["--no-prefix"],
    &["--src-prefix=x/", "--dst-prefix=y/"],
    &["-R"],
    &["--binary"],
    &["--word-diff"],
    &["--word-diff=porcelain"],
    &["--stat", "-p"],
    &["--color=always"],
    &["--full-index"],
    &["-B"],
    &["-C", "--find-copies-harder"],
    &["-W"],
    &["-w"],
    &["--inter-hunk-context=5"],
    &["--raw", "-p"],
    &["--name-only"],
    &["--numstat"],
    &["--summary", "-p"],
    &["--line-prefix=| "],
    &["-z", "--raw"],
    &["--output-indicator-new=>", "--output-indicator-old=<"],
    &["--color-words"],
    &["--compact-summary", "-p"],
    &["--ignore-blank-lines"],
    &["--text"],
    &["-U0"],
    &["-U1"],
    &["--minimal"],
    &["--patience"],
    &["--histogram"],
    &["--ws-error-highlight=all", "--color=always"],
    &["--no-renames"],
    &["--dirstat", "-p"],
    &["--output-indicator-context=."],
];

#[derive(Clone, Debug, Serialize, Deserialize)]
pub struct DiffForm {
    pub mutant: Mutant,
    pub second: Vec<MutOp>,
    /// indices into DIFF_OPTS (1..3 option sets combined)
    pub opts: Vec<u8>,
    /// 0 work tree vs index, 1 `git diff` in the middle of a conflicting merge (combined diff with conflict markers),
    /// 2 `git show` of the merge commit (`diff --cc`), 3 `git log -p -2`, 4 `git format-patch --stdout -1`,
    /// 5 `git stash show -p`, 6 `git diff` of a file that also turned executable and was renamed
    pub scenario: u8,
}

/// "Any diff git can produce": whatever git prints for a pair (or triple) of states under unusual options is piped
/// to `blockwatch` and `blockwatch list`; any verdict or readable error will do, a crash or a hang will not.
pub fn check_diff_forms(c: &DiffForm, probe: &Probe) -> Verdict {
    let sd = seeds();
    let seed = &sd[pick_idx(c.mutant.seed, sd.len())];
    let old = apply(&seed.text, &c.mutant.ops);
    let new = apply(&old, &c.second);
    let sfx = SUFFIXES[seed.suffix].0;
    let f = langs::file_name("m", sfx);
    let sb = Sandbox::new();
    sb.init_repo();
    let mut opts: Vec<&str> = vec![];
    for o in &c.opts {
        opts.extend_from_slice(DIFF_OPTS[*o as usize % DIFF_OPTS.len()]);
    }
    let with = |head: &[&str]| -> Vec<String> { head.iter().chain(opts.iter()).map(|s| s.to_string()).collect() };
    let git_out = |args: Vec<String>| -> String {
        let a: Vec<&str> = args.iter().map(String::as_str).collect();
        sb.git(&a).stdout
    };
    let scenario = c.scenario % 7;
    let d = match scenario {
        1 | 2 => {
            sb.write(&f, seed.text.as_bytes());
            sb.commit_all("base");
            sb.git_ok(&["checkout", "-q", "-b", "side"]);
            sb.write(&f, old.as_bytes());
            sb.commit_all("side");
            sb.git_ok(&["checkout", "-q", "main"]);
            sb.write(&f, new.as_bytes());
            sb.commit_all("main");
            let m = sb.git(&["merge", "--no-edit", "-q", "side"]);
            if scenario == 1 {
                probe.class(if m.code == Some(0) { "diff-form:merge-without-conflict" } else { "diff-form:conflict-in-progress(combined diff)" });
                git_out(with(&["diff", "--no-ext-diff"]))
            } else {
                if m.code != Some(0) {
                    sb.write(&f, format!("{new}\nresolved\n").as_bytes());
                    sb.commit_all("merge");
                }
                probe.class("diff-form:show-merge-commit(--cc)");
                git_out(with(&["show", "--no-ext-diff", "--cc"]))
            }
        }
        3 | 4 => {
            sb.write(&f, seed.text.as_bytes());
            sb.commit_all("base");
            sb.write(&f, old.as_bytes());
            sb.commit_all("old -- with a subject\n\n--- a/x\n+++ b/x\n@@ -1 +1 @@ body text that looks like a diff\n");
            sb.write(&f, new.as_bytes());
            sb.commit_all("new");
            if scenario == 3 {
                probe.class("diff-form:log-p");
                git_out(with(&["log", "-p", "-2", "--no-ext-diff"]))
            } else {
                probe.class("diff-form:format-patch");
                git_out(with(&["format-patch", "--stdout", "-2"]))
            }
        }
        5 => {
            sb.write(&f, old.as_bytes());
            sb.commit_all("old");
            sb.write(&f, new.as_bytes());
            sb.git(&["stash", "-q"]);
            probe.class("diff-form:stash-show");
            let d = git_out(with(&["stash", "show", "-p"]));
            sb.git(&["stash", "pop", "-q"]);
            d
        }
        6 => {
            sb.write(&f, old.as_bytes());
            sb.commit_all("old");
            let g = format!("moved/{f}");
            sb.git(&["mv", "-k", &f, "moved_tmp"]);
            let _ = std::fs::create_dir_all(sb.root.join("moved"));
            let _ = std::fs::rename(sb.root.join("moved_tmp"), sb.root.join(&g));
            sb.write(&g, new.as_bytes());
            {
                use std::os::unix::fs::PermissionsExt;
                let _ = std::fs::set_permissions(sb.root.join(&g), std::fs::Permissions::from_mode(0o755));
            }
            sb.git_ok(&["add", "-A"]);
            probe.class("diff-form:rename+mode+edit");
            git_out(with(&["diff", "--no-ext-diff", "--cached", "-M30%"]))
        }
        _ => {
            sb.write(&f, old.as_bytes());
            sb.commit_all("old");
            sb.write(&f, new.as_bytes());
            probe.class("diff-form:work-tree");
            git_out(with(&["diff", "--no-ext-diff"]))
        }
    };
    if d.is_empty() {
        probe.class("diff-form:empty-output");
    } else {
        probe.nontrivial();
    }
    let show = |what: &str, mode: &str, o: &Out| format!("C04 [{sfx}]: {what} in {mode} mode; git scenario {scenario}, options {opts:?}\n--- input from git ({} bytes) ---\n{}\n--- observed ---\n{}", d.len(), crate::cli::trunc(&d, 3000), o.brief());
    for (mode, mut r) in [("diff", BwRun::diff(&[], d.as_bytes())), ("diff-list", BwRun::diff(&["list"], d.as_bytes()))] {
        r.timeout_s = Some(30);
        probe.child();
        probe.evals(1);
        let o = sb.bw(&r);
        if o.timed_out {
            if (0..2).all(|_| sb.bw(&r).timed_out) {
                if grammar_terminates(sfx, &new) == Some(false) && crate::known::listed("K6") {
                    return Verdict::Known("K6");
                }
                return Verdict::Fail(show("does not terminate (3/3 runs exceeded 30 s)", mode, &o));
            }
            return Verdict::Unspecified("one slow run that did not reproduce (inconclusive)");
        }
        if let Some(why) = bad_exit(&o) {
            return Verdict::Fail(show(&why, mode, &o));
        }
        probe.class(if o.code == Some(0) { "diff-form:exit0" } else { "diff-form:exit1" });
    }
    probe.sample(|| json!({"file": f, "scenario": scenario, "options": opts, "diff_head": crate::cli::trunc(&d, 300)}));
    Verdict::Pass
}

fn ops_strategy(max: usize) -> BoxedStrategy<Vec<MutOp>> {
    let op = prop_oneof![
        (any::<u16>(), any::<u16>()).prop_map(|(a, l)| MutOp::Delete(a, l)),
        (any::<u16>(), any::<u16>()).prop_map(|(a, l)| MutOp::Duplicate(a, l)),
        (any::<u16>(), any::<u16>()).prop_map(|(a, t)| MutOp::Insert(a, t)),
        any::<u16>().prop_map(MutOp::Truncate),
        (any::<u16>(), any::<u16>(), any::<u16>()).prop_map(|(a, b, l)| MutOp::Swap(a, b, l)),
    ];
    proptest::collection::vec(op, 1..max).boxed()
}

pub const SWEEP_CHARS: &[char] = &['\u{a0}', '\u{3000}', '\u{2028}', '\u{85}', 'é', '😀', '\u{301}', '\u{feff}', '\u{b}', '\r', '\0'];

#[derive(Clone, Debug, Serialize, Deserialize)]
pub struct SweepItem {
    /// index into the golden seeds
    pub seed: usize,
    /// index into SWEEP_CHARS
    pub ch: usize,
    /// false: insert the character at every position; true: replace every ASCII blank by it, one at a time
    pub replace: bool,
}

/// Every position of a small valid file x one unusual character (insert, or replace a blank).
pub fn check_sweep(it: &SweepItem, probe: &Probe) -> Verdict {
    let sd = seeds();
    let seed = &sd[it.seed % sd.len()];
    let ch = SWEEP_CHARS[it.ch % SWEEP_CHARS.len()];
    let t = &seed.text;
    for p in 0..=t.len() {
        if !t.is_char_boundary(p) {
            continue;
        }
        let text = if it.replace {
            match t[p..].chars().next() {
                Some(c @ (' ' | '\t')) => format!("{}{ch}{}", &t[..p], &t[p + c.len_utf8()..]),
                _ => continue,
            }
        } else {
            format!("{}{ch}{}", &t[..p], &t[p..])
        };
        if degenerate(&text) {
            probe.nontrivial_sub(&(it.seed, it.ch, p));
        } else if p > 0 && matches!(t.as_bytes()[p - 1], b'*' | b'/' | b'#' | b'-' | b'\n' | b'<' | b'=' | b'k') {
            // directly after a comment delimiter, a line start inside a comment or a tag boundary
            probe.nontrivial_sub(&(it.seed, it.ch, p));
        }
        match in_process_all_suffixes(&text, &[seed.suffix], probe) {
            Verdict::Pass => {}
            v => return v,
        }
    }
    probe.sample(|| json!({"seed_file": seed.origin, "char": format!("U+{:04X}", ch as u32), "mode": if it.replace { "replace each blank" } else { "insert at every position" }, "positions": t.len()}));
    Verdict::Pass
}

pub fn sweep_items() -> Vec<SweepItem> {
    let sd = seeds();
    let goldens: Vec<usize> = (0..sd.len()).filter(|i| sd[*i].origin.starts_with("golden")).collect();
    let mut v = vec![];
    for &seed in &goldens {
        for ch in 0..SWEEP_CHARS.len() {
            for replace in [false, true] {
                v.push(SweepItem { seed, ch, replace });
            }
        }
    }
    v
}

/// Deep / long repetitive shapes: (label, opener repeated n times, body, closer repeated n times, newline between repeats)
pub const DEEP_SHAPES: &[(&str, &str, &str, &str, bool)] = &[
    ("parens", "(", "x", ")", false),
    ("brackets", "[", "1", "]", false),
    ("braces", "{", "", "}", false),
    ("elements", "<div>", "x", "</div>", false),
    ("quote-prefixes", "> ", "x", "", false),
    ("block-comment-openers", "/* ", "x", " */", false),
    ("html-comment-openers", "<!-- ", "x", " -->", false),
    ("comment-lines", "# c", "", "", true),
    ("nested-blocks-hash", "# <block>", "", "# </block>", true),
    ("nested-blocks-slash", "// <block>", "", "// </block>", true),
    ("member-chain", "a.", "a", "", false),
    ("binary-chain", "1+", "1", "", false),
    ("quotes", "\"", "", "", false),
    ("nested-list", "", "", "", true),
    ("backticks", "`", "", "", false),
    ("tag-openers", "<block ", "", "", false),
];

#[derive(Clone, Debug, Serialize, Deserialize)]
pub struct DeepItem {
    pub suffix: usize,
    pub shape: usize,
    pub n: usize,
}

pub fn deep_text(shape: usize, n: usize) -> String {
    let (label, open, body, close, nl) = DEEP_SHAPES[shape % DEEP_SHAPES.len()];
    if label == "nested-list" {
        return (0..n).map(|i| format!("{}- x\n", "  ".repeat(i))).collect();
    }
    let sep = if nl { "\n" } else { "" };
    let mut s = String::with_capacity(n * (open.len() + close.len() + 1) + 8);
    for _ in 0..n {
        s.push_str(open);
        s.push_str(sep);
    }
    s.push_str(body);
    s.push_str(sep);
    for _ in 0..n {
        s.push_str(close);
        s.push_str(sep);
    }
    s.push('\n');
    s
}

/// K7 signature: a Markdown file on which blockwatch is killed by tree-sitter's `length <= 1024` assertion
/// (the Markdown scanner's serialised state outgrows tree-sitter's fixed buffer under deep container nesting).
fn k7_signature(suffix: &str, o: &Out) -> bool {
    matches!(suffix, "md" | "markdown") && o.stderr.contains("ts_parser__external_scanner_serialize")
}

pub fn check_deep(it: &DeepItem, probe: &Probe) -> Verdict {
    let (suffix, _) = SUFFIXES[it.suffix % SUFFIXES.len()];
    let text = deep_text(it.shape, it.n);
    let file = langs::file_name("deep", suffix);
    probe.class(&format!("shape:{}", DEEP_SHAPES[it.shape % DEEP_SHAPES.len()].0));
    probe.class(&format!("depth:{}", it.n));
    probe.nontrivial();
    probe.sample(|| json!({"file": file, "shape": DEEP_SHAPES[it.shape % DEEP_SHAPES.len()].0, "repeats": it.n, "bytes": text.len()}));
    let sb = Sandbox::with_fake_git();
    sb.write(&file, text.as_bytes());
    for args in [vec![file.as_str()], vec!["list", file.as_str()]] {
        let mut r = BwRun::scan(&args);
        r.timeout_s = Some(40);
        probe.child();
        probe.evals(1);
        let o = sb.bw(&r);
        if o.wall_ms > 2000 {
            probe.class(&format!("slow(>2s):{}:{}", DEEP_SHAPES[it.shape % DEEP_SHAPES.len()].0, langs::lang_of_suffix(suffix).id));
        }
        if o.timed_out {
            return Verdict::Unspecified("a repetitive input of this size takes longer than 40 s (slowness is not judged here)");
        }
        if let Some(why) = bad_exit(&o) {
            if k7_signature(suffix, &o) && crate::known::listed("K7") {
                probe.class("known:K7");
                return Verdict::Known("K7");
            }
            return Verdict::Fail(format!("C04 [{suffix}]: {why} on {} repeats of {:?} ({} bytes, `{}`)\n--- observed ---\n{}", it.n, DEEP_SHAPES[it.shape % DEEP_SHAPES.len()].1, text.len(), args.join(" "), o.brief()));
        }
    }
    Verdict::Pass
}

pub fn deep_items(thorough: bool) -> Vec<DeepItem> {
    let mut v = vec![];
    // smallest first
    for n in if thorough { [300usize, 3000] } else { [300usize, 1000] } {
        for shape in 0..DEEP_SHAPES.len() {
            for suffix in 0..SUFFIXES.len() {
                // quick tier: `<!-- ` repeated 1000 times sends the error recovery of several non-markup grammars
                // into seconds of (terminating) work; keep that shape for markup-capable suffixes only
                let markup = matches!(SUFFIXES[suffix].0, "html" | "htm" | "xml" | "md" | "markdown" | "php" | "phtml" | "tsx" | "jsx");
                if !thorough && n > 300 && DEEP_SHAPES[shape].0 == "html-comment-openers" && !markup {
                    continue;
                }
                v.push(DeepItem { suffix, shape, n });
            }
        }
    }
    // very deep expression nesting (stack depth of anything recursive) on a subset; markup shapes are left out
    // at this size because tree-sitter-html/xml are quadratic in the nesting depth (slow, not wrong)
    let deep_sfx = ["js", "py", "c", "rs", "yaml", "go", "java", "ts", "tsx", "rb", "sh", "php", "kt", "swift", "cs", "toml", "sql", "css"];
    let n = if thorough { 200_000 } else { 40_000 };
    for shape in [0usize, 1, 2, 10, 11] {
        for sfx in deep_sfx {
            v.push(DeepItem { suffix: SUFFIXES.iter().position(|(s, _)| *s == sfx).unwrap(), shape, n });
        }
    }
    v
}

#[derive(Clone, Debug, Serialize, Deserialize)]
pub struct RawInput {
    pub suffix: String,
    pub text: String,
    /// shortened limits (sentinel of a known non-termination: 5 s in-process, one 10 s CLI run, 5 s grammar probe)
    #[serde(default)]
    pub fast: bool,
}

/// Sentinel / regression form: one literal input under one suffix.
pub fn check_raw(r: &RawInput, probe: &Probe) -> Verdict {
    let Some(si) = SUFFIXES.iter().position(|(s, _)| *s == r.suffix) else { return Verdict::Unspecified("unknown suffix") };
    FAST.with(|f| f.set(r.fast));
    let v = in_process_all_suffixes(&r.text, &[si], probe);
    FAST.with(|f| f.set(false));
    v
}

/// Characters for the line-edit part: ASCII, and multi-byte characters in groups that share their UTF-8 lead
/// byte(s), so that two lines can differ in a continuation byte only.
const EDIT_CHARS: &[char] = &['a', 'b', ' ', '=', '"', 'é', 'è', 'ê', 'е', 'и', 'б', '日', '旦', '本', '😀', '😁', '👍', '\u{a0}', '\u{301}', 'ß', '€'];

#[derive(Clone, Debug, Serialize, Deserialize)]
pub struct LineEdits {
    /// lines of the block's content in the old state (indexes into EDIT_CHARS)
    pub old: Vec<Vec<u8>>,
    /// character edits giving the new state: (line, position, kind 0 substitute / 1 insert / 2 delete, character)
    pub edits: Vec<(u8, u8, u8, u8)>,
    pub unified: u8,
    /// character edits of the START-TAG line (position, kind, character): applied to the OLD state only, so the
    /// parsed new state keeps its tag; changed ranges then begin or end anywhere around the tag's `<` and `>`
    #[serde(default)]
    pub tag_edits: Vec<(u8, u8, u8)>,
}

/// Line-edit part: the old and new state differ by a few character edits inside short lines of mixed ASCII and
/// multi-byte text; real `git diff` piped to `blockwatch` and `blockwatch list` (the per-line character diff
/// runs on every removed/added pair).
pub fn check_line_edits(c: &LineEdits, probe: &Probe) -> Verdict {
    let to_line = |v: &Vec<char>| -> String { v.iter().collect() };
    let old: Vec<Vec<char>> = c.old.iter().map(|l| l.iter().map(|i| EDIT_CHARS[*i as usize % EDIT_CHARS.len()]).collect()).collect();
    let mut new = old.clone();
    for (l, p, k, ch) in &c.edits {
        if new.is_empty() {
            break;
        }
        let li = *l as usize % new.len();
        let line = &mut new[li];
        let ch = EDIT_CHARS[*ch as usize % EDIT_CHARS.len()];
        match k % 3 {
            0 if !line.is_empty() => {
                let i = *p as usize % line.len();
                line[i] = ch;
            }
            1 => {
                let i = *p as usize % (line.len() + 1);
                line.insert(i, ch);
            }
            2 if !line.is_empty() => {
                let i = *p as usize % line.len();
                line.remove(i);
            }
            _ => {}
        }
    }
    let new_tag: Vec<char> = " # <block name=\"u\" keep-unique> tail".chars().collect();
    let mut old_tag = new_tag.clone();
    for (p, k, ch) in &c.tag_edits {
        let ch = EDIT_CHARS[*ch as usize % EDIT_CHARS.len()];
        match k % 3 {
            0 if !old_tag.is_empty() => {
                let i = *p as usize % old_tag.len();
                old_tag[i] = ch;
            }
            1 => {
                let i = *p as usize % (old_tag.len() + 1);
                old_tag.insert(i, ch);
            }
            2 if old_tag.len() > 1 => {
                let i = *p as usize % old_tag.len();
                old_tag.remove(i);
            }
            _ => {}
        }
    }
    let file = |tag: &Vec<char>, ls: &Vec<Vec<char>>| format!("{}\n{}# </block>\nafter = 1\n", to_line(tag), ls.iter().map(|l| format!("{}\n", to_line(l))).collect::<String>());
    let (old_t, new_t) = (file(&old_tag, &old), file(&new_tag, &new));
    if old_tag != new_tag {
        probe.class("start-tag line edited");
    }
    if old.iter().zip(&new).any(|(a, b)| a != b && a.iter().zip(b).position(|(x, y)| x != y).is_some_and(|i| a[i].len_utf8() > 1 && b[i].len_utf8() > 1)) {
        probe.nontrivial(); // the first differing character of a changed line is multi-byte on both sides
    }
    let sb = Sandbox::new();
    sb.init_repo();
    sb.write("u.py", old_t.as_bytes());
    sb.commit_all("old");
    sb.write("u.py", new_t.as_bytes());
    let d = sb.git_diff(&[&format!("-U{}", c.unified % 4)]);
    for (mode, args) in [("diff", vec![]), ("diff-list", vec!["list"])] {
        let mut r = BwRun::diff(&args, d.as_bytes());
        r.timeout_s = Some(30);
        probe.child();
        probe.evals(1);
        let o = sb.bw(&r);
        if o.timed_out {
            return Verdict::Unspecified("slow run (inconclusive)");
        }
        if let Some(why) = bad_exit(&o) {
            return Verdict::Fail(format!("C04 [line edits]: {why} in {mode} mode\n--- old ---\n{old_t}--- new ---\n{new_t}--- diff ---\n{d}\n--- observed ---\n{}", o.brief()));
        }
    }
    probe.sample(|| json!({"old": old_t, "new": new_t}));
    Verdict::Pass
}

/// Keys a numeric keep-sorted block may meet that `f64` parsing accepts or rejects in unusual ways.
const ODD_NUMBERS: &[&str] = &["nan", "NaN", "-nan", "inf", "-inf", "+5", "1e3", ".5", "5.", "-0", "0", "1e400", "-1e-400", "1_0", "0x1", "\u{661}", "9007199254740993", ""];

#[derive(Clone, Debug, Serialize, Deserialize)]
pub struct OddKeys {
    pub keys: Vec<u8>,
    pub desc: bool,
    pub pattern: bool,
}

/// Odd-number part: whatever the verdict on such keys is (a violation, an explanatory error, or nothing), the run
/// must end with a report or a readable error — no panic inside a validator thread.
pub fn check_odd_keys(c: &OddKeys, probe: &Probe) -> Verdict {
    let lines: Vec<&str> = c.keys.iter().map(|k| ODD_NUMBERS[*k as usize % ODD_NUMBERS.len()]).collect();
    let mut tag = format!("<block name=\"n\" keep-sorted=\"{}\" keep-sorted-format=\"numeric\"", if c.desc { "desc" } else { "asc" });
    if c.pattern {
        tag.push_str(" keep-sorted-pattern=\"[-+.\\w]+\"");
    }
    tag.push('>');
    let text = format!("# {tag}\n{}# </block>\n", lines.iter().map(|l| format!("{l}\n")).collect::<String>());
    let sb = Sandbox::with_fake_git();
    sb.write("n.py", text.as_bytes());
    let mut r = BwRun::scan(&["n.py"]);
    r.timeout_s = Some(30);
    probe.child();
    let o = sb.bw(&r);
    if lines.iter().any(|l| l.to_ascii_lowercase().contains("nan")) {
        probe.nontrivial();
    }
    probe.sample(|| json!({"file": text, "exit": o.code, "stderr": crate::cli::trunc(&o.stderr, 200)}));
    if let Some(why) = bad_exit(&o) {
        return Verdict::Fail(format!("C04 [odd numeric keys]: {why}\n--- n.py ---\n{text}--- observed ---\n{}", o.brief()));
    }
    Verdict::Pass
}

pub fn odd_key_items() -> Vec<OddKeys> {
    let n = ODD_NUMBERS.len() as u8;
    let mut out = vec![];
    for a in 0..n {
        for b in 0..n {
            out.push(OddKeys { keys: vec![a, b], desc: (a + b) % 2 == 1, pattern: (a + 2 * b) % 3 == 0 });
            for c in [0u8, 1, 3, 9] {
                out.push(OddKeys { keys: vec![a, b, c], desc: (a + b + c) % 2 == 0, pattern: (a + b) % 3 == 1 });
            }
        }
    }
    out
}

/// Many path arguments x many files: `n` tiny files, every one also passed as its own argument (what an unquoted
/// shell glob or `$(git ls-files)` produces). Work must stay far from quadratic: a 30 s limit for a run that takes
/// a fraction of a second.
#[derive(Clone, Debug, Serialize, Deserialize)]
pub struct ManyPaths {
    pub n: u32,
    pub list: bool,
    /// reach the files through one glob (a directory walk over all of them) instead of one argument per file
    #[serde(default)]
    pub glob: bool,
}

pub fn check_many_paths(c: &ManyPaths, probe: &Probe) -> Verdict {
    let sb = Sandbox::with_fake_git();
    let mut names: Vec<String> = vec![];
    for i in 0..c.n {
        let name = format!("src/m{i:05}.py");
        let body = if i == c.n / 2 { "# <block name=\"v\" keep-sorted>\nb\na\n# </block>\n".to_string() } else { format!("# <block name=\"b{i}\">\nx = {i}\n# </block>\n") };
        sb.write(&name, body.as_bytes());
        names.push(name);
    }
    let mut args: Vec<&str> = if c.list { vec!["list"] } else { vec![] };
    if c.glob {
        args.push("src/**/*.py");
    } else {
        args.extend(names.iter().map(String::as_str));
    }
    let mut r = BwRun::scan(&args);
    r.timeout_s = Some(30);
    probe.child();
    probe.nontrivial();
    let o = sb.bw(&r);
    probe.sample(|| json!({"files": c.n, "list": c.list, "wall_ms": o.wall_ms, "exit": o.code}));
    if o.timed_out {
        let again = sb.bw(&r);
        if again.timed_out {
            return Verdict::Fail(format!("C04 [many paths]: {} files {}: no result within 30 s (twice)", c.n, if c.glob { "reached through one glob".to_string() } else { format!("passed as {} arguments", c.n) }));
        }
        return Verdict::Unspecified("one slow run that did not reproduce (inconclusive)");
    }
    if let Some(why) = bad_exit(&o) {
        return Verdict::Fail(format!("C04 [many path arguments]: {why}\n{}", o.brief()));
    }
    let want = if c.list { Some(0) } else { Some(1) };
    if o.code != want {
        return Verdict::Fail(format!("C04 [many path arguments]: exit {:?}, expected {want:?} (one file holds a violation)\n{}", o.code, o.brief()));
    }
    Verdict::Pass
}

pub fn run(run: &mut Run) {
    run.sentinel("K6", "raw", check_raw);
    run.enumerate("raw", Vec::<RawInput>::new(), None, check_raw);
    run.rule = "four enumerated and five random parts. diff-forms: a mutant and a further mutation of it (and, for merges, the unmutated file as common ancestor) turned into whatever git prints in one of seven situations (work tree diff; `git diff` in the middle of a conflicting merge - a combined diff holding conflict markers; `git show --cc` of a merge commit; `git log -p -2`; `git format-patch --stdout -2` with a commit message that looks like a diff; `git stash show -p`; a renamed file that also turned executable) under 0..2 of 34 option sets that change the output's shape (--no-prefix, other prefixes, -R, --binary, --word-diff[=porcelain], --color-words, --color=always, --stat/--raw/--summary/--dirstat in front of the patch, --name-only, --numstat, -z --raw, --line-prefix, other output indicators, -W, -w, -B, -C, --text, ...), piped to `blockwatch` and `blockwatch list`: any verdict or readable error, no crash, no hang. many-paths: 3 000 tiny files each passed as its own path argument (an unquoted shell glob), and 6 000 reached through one glob (a directory walk over more entries than any plausible internal queue holds), validate and list, 30 s limit for a job of about a second. odd-numbers: every pair (and a sample of triples) of 18 unusual numerals (nan, inf, exponents, signs, -0, overflow, underscores, hex, Arabic-Indic digit, 2^53+1, blank) as the keys of a numeric keep-sorted block, with and without a pattern: any verdict, but no panic. line-edits: a block of 1..4 short lines over 21 characters (ASCII and multi-byte characters in groups sharing their UTF-8 lead bytes) changed by 1..4 character substitutions / insertions / deletions, in two thirds of the cases together with 1..2 such edits of the start-tag line (so that changed ranges begin or end anywhere around the tag), real `git diff -U0..3` piped to `blockwatch` and `blockwatch list` (non-trivial = the first differing character of a changed line is multi-byte on both sides). deep: 16 repetitive shapes (nested parentheses / brackets / braces / elements, block-quote prefixes, comment openers, comment lines, nested <block> tags, member and operator chains, quotes, nested lists, backticks, unfinished tags) repeated 300 and 1 000 (thorough 3 000) times under every suffix, and expression nesting 40 000 (thorough 200 000) deep under 18 suffixes, on the CLI in scan and list mode. unicode-sweep: the golden file of every (suffix, comment form) with one unusual character (NBSP, ideographic space, U+2028, NEL, é, emoji, combining mark, BOM, VT, CR, NUL) inserted at every byte position, or substituted for each blank, parsed + validated in-process. soup: 1..40 tokens drawn from 155 fragments (comment delimiters of every language, tag fragments, half-written tags, quotes, brackets, newlines/CR/CRLF, NBSP, zero-width, emoji, combining marks, BOM, here-doc/PHP/Markdown/XML openers, small valid statements), glued or space-separated, run in-process (parse + sync validators) under all 39 suffixes. mutants: delete/duplicate/insert-token/truncate/move-span mutations of valid files (golden file of every suffix x comment form, and the repository's own sources, tests, README, capped at 8 KiB) under their own suffix in-process. cli: a mutant committed and a further mutation in the work tree, real `git diff -U0..3` piped to `blockwatch` and `blockwatch list`, plus scan and list, under the file's suffix and a second random suffix. Every in-process panic is re-run on the CLI before it is reported. Evaluations count (input, suffix, mode) runs. Non-trivial input = unbalanced comment delimiters, a half-written tag, a Markdown definition opener or a degenerate `<!-->`.".into();
    run.assumptions = vec![
        "inputs are at most 16 KiB (edited lines are short: the character diff of one replaced line is quadratic, slowness on very long lines is not flagged)".into(),
        "only git-made output is piped in (the diff-forms part includes forms that are not plain two-way patches: for those only termination without a crash is judged)".into(),
    ];
    let soup = || (proptest::collection::vec(any::<u16>(), 1..40), any::<bool>()).prop_map(|(tokens, spaced)| Soup { tokens, spaced }).boxed();
    let mutant = || (any::<u16>(), ops_strategy(6)).prop_map(|(seed, ops)| Mutant { seed, ops }).boxed();
    let cli = || (any::<u16>(), ops_strategy(4), ops_strategy(4), any::<u16>()).prop_map(|(seed, ops, second, other_suffix)| CliCase { mutant: Mutant { seed, ops }, second, other_suffix }).boxed();
    run.sentinel("K7", "deep", check_deep);
    run.enumerate("deep", deep_items(run.tier == crate::engine::Tier::Thorough), Some("16 repetitive shapes x 39 suffixes x {300, 1000} (thorough {300, 3000}) repeats, plus 5 expression-nesting shapes x 18 suffixes at 40 000 (thorough: 200 000) levels"), check_deep);
    run.enumerate("unicode-sweep", sweep_items(), Some("every byte position of the golden file of every (suffix, comment form) x 11 unusual characters x {insert, replace a blank}"), check_sweep);
    run.random("soup", run.tier.pick(2500, 40000), soup, check_soup);
    run.random("mutants", run.tier.pick(20000, 600000), mutant, check_mutant);
    run.shrink_iters = 100;
    run.enumerate("many-paths", vec![ManyPaths { n: 3000, list: false, glob: false }, ManyPaths { n: 3000, list: true, glob: false }, ManyPaths { n: 6000, list: false, glob: true }, ManyPaths { n: 6000, list: true, glob: true }], Some("3 000 tiny files, each also passed as its own path argument, and 6 000 reached through one glob; validate and list"), check_many_paths);
    run.enumerate("odd-numbers", odd_key_items(), Some("every pair (and a sample of triples) of 18 unusual numerals as the keys of a numeric keep-sorted block"), check_odd_keys);
    run.random("cli", run.tier.pick(400, 10000), cli, check_cli);
    let forms = || (any::<u16>(), ops_strategy(4), ops_strategy(4), proptest::collection::vec(0u8..(DIFF_OPTS.len() as u8), 0..3), 0u8..7).prop_map(|(seed, ops, second, opts, scenario)| DiffForm { mutant: Mutant { seed, ops }, second, opts, scenario }).boxed();
    run.random("diff-forms", run.tier.pick(500, 12000), forms, check_diff_forms);
    let edits = || {
        (proptest::collection::vec(proptest::collection::vec(any::<u8>(), 0..12), 1..5), proptest::collection::vec((any::<u8>(), any::<u8>(), 0u8..3, any::<u8>()), 1..5), 0u8..4, prop_oneof![1 => Just(vec![]), 2 => proptest::collection::vec((any::<u8>(), 0u8..3, any::<u8>()), 1..3)])
            .prop_map(|(old, edits, unified, tag_edits)| LineEdits { old, edits, unified, tag_edits })
            .boxed()
    };
    run.random("line-edits", run.tier.pick(600, 20000), edits, check_line_edits);
    if run.tier == crate::engine::Tier::Thorough {
        // corpus: every valid seed file prefixed with its suffix index
        let seeds: Vec<Vec<u8>> = seeds().iter().map(|s| {
            let mut v = vec![s.suffix as u8];
            v.extend_from_slice(&s.text.as_bytes()[..s.text.len().min(2000)]);
            v
        }).collect();
        run.fuzz_part("no_panic", "raw", 400_000, 8, 4096, seeds, &|bytes, probe| {
            let (file, text) = crate::fuzzdec::no_panic_input(bytes);
            let suffix = SUFFIXES[bytes.first().copied().unwrap_or(0) as usize % SUFFIXES.len()].0.to_string();
            let _ = file;
            let raw = RawInput { suffix, text, fast: false };
            (check_raw(&raw, probe), serde_json::to_value(&raw).unwrap_or_default())
        });
    }
}
