//! C14 — --enable / --disable select validators without side effects.
use crate::cli::{BwRun, Out, Sandbox};
use crate::engine::{Probe, Run, Verdict};
use crate::fakeai::{FakeAi, Reply};
use crate::report::{Diag, parse_diags};
use crate::rules::{Host, RuleBlock, render_batch};
use proptest::prelude::*;
use serde::{Deserialize, Serialize};
use serde_json::json;

pub const VALIDATORS: [&str; 7] = ["affects", "keep-sorted", "keep-unique", "line-pattern", "line-count", "check-ai", "check-lua"];

#[derive(Clone, Debug, Serialize, Deserialize, Hash)]
pub struct VBlock {
    /// index into VALIDATORS
    pub validator: usize,
    pub violating: bool,
    pub warning: bool,
    pub file: usize,
    /// a second rule on the same block whose verdict does not depend on the block's lines: 0 none,
    /// 1 `line-count=">=1"` (satisfied), 2 `line-count=">5"` (violated), 3 `line-pattern="[a-zA-Z]"` (satisfied),
    /// 4 `line-pattern="^z"` (violated); dropped when the block's own validator is the same one
    #[serde(default)]
    pub second: u8,
}

#[derive(Clone, Debug, Serialize, Deserialize, Hash)]
pub struct FlagCase {
    pub blocks: Vec<VBlock>,
    pub files: usize,
    /// subsets (bit masks over VALIDATORS) to try with -d and with -e
    pub subsets: Vec<u8>,
    /// spelling variant of the flags
    pub spelling: u8,
    /// 0: every file is new in the diff (every block modified). k > 0: the first k % n blocks of each file (n its
    /// number of blocks) are committed beforehand, the diff appends the rest, and every file is also passed as a
    /// path argument: the leading blocks are in scope but untouched (their `affects` is not live)
    #[serde(default)]
    pub prefix: u8,
}

/// The second rule of a block, if it applies: (validator index, attribute name, value, violated).
fn second_rule(b: &VBlock) -> Option<(usize, &'static str, &'static str, bool)> {
    let r = match b.second {
        1 => (4, "line-count", ">=1", false),
        2 => (4, "line-count", ">5", true),
        3 => (3, "line-pattern", "[a-zA-Z]", false),
        4 => (3, "line-pattern", "^z", true),
        _ => return None,
    };
    (r.0 != b.validator).then_some(r)
}

fn a(k: &str, v: &str) -> (String, Option<String>) {
    (k.to_string(), Some(v.to_string()))
}

fn rule_block(i: usize, b: &VBlock) -> RuleBlock {
    let mut attrs = vec![a("name", &format!("blk{i}"))];
    if b.warning {
        attrs.push(a("severity", "warning"));
    }
    let v = b.violating;
    let lines: Vec<&str> = match VALIDATORS[b.validator] {
        "affects" => {
            // satisfied links point at the same file's `tgt` or at a file that holds nothing but a named block
            attrs.push(a("affects", &if v { format!(":nosuch{i}") } else if i % 2 == 1 { "names_only.sh:xt".to_string() } else { ":tgt".to_string() }));
            vec!["a"]
        }
        "keep-sorted" => {
            attrs.push(("keep-sorted".into(), None));
            if v { vec!["b", "a"] } else { vec!["a", "b"] }
        }
        "keep-unique" => {
            attrs.push(("keep-unique".into(), None));
            if v { vec!["a", "a"] } else { vec!["a", "b"] }
        }
        "line-pattern" => {
            attrs.push(a("line-pattern", "^[a-z]+$"));
            if v { vec!["a", "B1"] } else { vec!["a", "b"] }
        }
        "line-count" => {
            attrs.push(a("line-count", "<2"));
            if v { vec!["a", "b"] } else { vec!["a"] }
        }
        "check-ai" => {
            attrs.push(a("check-ai", &format!("cond {i} {}", if v { "BAD" } else { "GOOD" })));
            vec!["a"]
        }
        "check-lua" => {
            attrs.push(a("check-lua", if v { "echo.lua" } else { "nil.lua" }));
            vec!["a"]
        }
        _ => unreachable!(),
    };
    if let Some((_, k, val, _)) = second_rule(b) {
        attrs.push(a(k, val));
    }
    RuleBlock { attrs, lines: lines.into_iter().map(String::from).collect(), indent: 0 }
}

fn flag_args(flag: char, mask: u8, spelling: u8) -> Vec<String> {
    let mut names: Vec<&str> = (0..7).filter(|i| mask & (1 << i) != 0).map(|i| VALIDATORS[i]).collect();
    if spelling & 1 != 0 {
        names.reverse();
    }
    if spelling & 2 != 0 && !names.is_empty() {
        names.push(names[0]); // repeated flag: set union
    }
    let long = if flag == 'd' { "--disable" } else { "--enable" };
    names
        .iter()
        .enumerate()
        .flat_map(|(k, n)| match (spelling >> 2) % 3 {
            0 => vec![format!("-{flag}"), n.to_string()],
            1 => vec![format!("{long}={n}")],
            _ => if k % 2 == 0 { vec![long.to_string(), n.to_string()] } else { vec![format!("-{flag}{n}")] },
        })
        .collect()
}

pub fn check(case: &FlagCase, probe: &Probe) -> Verdict {
    let nfiles = case.files.max(1);
    let sb = Sandbox::new();
    sb.init_repo();
    sb.write("echo.lua", super::c11::ECHO_LUA.as_bytes());
    sb.write("nil.lua", super::c11::NIL_LUA.as_bytes());
    let mut texts = vec![];
    let mut full: Vec<(String, String)> = vec![];
    // blocks (indices into case.blocks) that are committed beforehand and stay untouched
    let mut untouched: Vec<usize> = vec![];
    for f in 0..nfiles {
        let mine: Vec<usize> = case.blocks.iter().enumerate().filter(|(_, b)| b.file % nfiles == f).map(|(i, _)| i).collect();
        let mut rbs: Vec<RuleBlock> = mine.iter().map(|i| rule_block(*i, &case.blocks[*i])).collect();
        rbs.push(RuleBlock { attrs: vec![a("name", "tgt")], lines: vec!["t".into()], indent: 0 });
        let r = render_batch(Host::Sh, &rbs);
        let k = case.prefix as usize % rbs.len();
        if case.prefix > 0 && k > 0 {
            let head = render_batch(Host::Sh, &rbs[..k]);
            assert!(r.text.starts_with(&head.text), "the committed part is a prefix of the file");
            sb.write(&format!("f{f}.sh"), head.text.as_bytes());
            untouched.extend(&mine[..k]);
        }
        texts.push(format!("--- f{f}.sh{} ---\n{}", if case.prefix > 0 && k > 0 { format!(" (first {k} block(s) committed beforehand)") } else { String::new() }, r.text));
        full.push((format!("f{f}.sh"), r.text));
    }
    sb.commit_all("base");
    for (p, t) in &full {
        sb.write(p, t.as_bytes());
    }
    if !untouched.is_empty() {
        probe.class("tree-with-untouched-leading-blocks(path arguments)");
    }
    let names_only = render_batch(Host::Sh, &[RuleBlock { attrs: vec![a("name", "xt")], lines: vec!["t".into()], indent: 0 }]);
    sb.write("names_only.sh", names_only.text.as_bytes());
    texts.push(format!("--- names_only.sh ---\n{}", names_only.text));
    sb.git_ok(&["add", "-A"]);
    let diff = sb.git_diff(&["--cached"]);
    let fake = FakeAi::start(|_, req| {
        let m = req.user_message().unwrap_or_default();
        if m.contains("BAD") { Reply::Text(format!("not satisfied: {}", m.lines().nth(1).unwrap_or(""))) } else { Reply::Text("OK".into()) }
    });
    let paths: Vec<String> = if case.prefix > 0 { full.iter().map(|(p, _)| p.clone()).collect() } else { vec![] };
    let run_with = |args: &[String]| -> Out {
        let argv: Vec<&str> = args.iter().chain(paths.iter()).map(String::as_str).collect();
        probe.child();
        sb.bw(&BwRun::diff(&argv, diff.as_bytes()).env("BLOCKWATCH_AI_API_URL", &fake.url()).env("BLOCKWATCH_AI_API_KEY", "k").env("BLOCKWATCH_AI_MODEL", "m"))
    };
    let show = |what: &str, args: &[String], o: &Out| format!("C14: {what}\nargs: {args:?}\n{}\n--- observed ---\n{}", texts.join("\n"), o.brief());

    // unrestricted run, compared with construction
    let base = run_with(&[]);
    if base.panicked() || base.timed_out {
        return Verdict::Fail(show("unrestricted run crashed", &[], &base));
    }
    let d_all = match parse_diags(&base.stderr) {
        Ok(d) => d,
        Err(e) => return Verdict::Fail(show(&format!("unrestricted run: {e}"), &[], &base)),
    };
    let mut want_counts = [0usize; 7];
    for (i, b) in case.blocks.iter().enumerate() {
        // (an untouched block's `affects` is not live)
        if b.violating && !(VALIDATORS[b.validator] == "affects" && untouched.contains(&i)) {
            want_counts[b.validator] += 1;
        }
        if let Some((v, _, _, true)) = second_rule(b) {
            want_counts[v] += 1;
        }
    }
    if case.blocks.iter().any(|b| second_rule(b).is_some()) {
        probe.class("tree-with-two-rule-blocks");
    }
    let mut got_counts = [0usize; 7];
    for d in &d_all {
        match VALIDATORS.iter().position(|v| *v == d.code) {
            Some(i) => got_counts[i] += 1,
            None => return Verdict::Fail(show(&format!("unknown diagnostic code {}", d.code), &[], &base)),
        }
    }
    if want_counts != got_counts {
        return Verdict::Fail(show(&format!("unrestricted run: diagnostics per validator {got_counts:?}, by construction {want_counts:?} (order {VALIDATORS:?})"), &[], &base));
    }
    let single_block_validator = (0..7).any(|v| case.blocks.iter().filter(|b| b.validator == v).count() == 1);
    if single_block_validator && want_counts.iter().filter(|c| **c > 0).count() >= 3 {
        probe.nontrivial();
    }
    probe.sample(|| json!({"case": case, "files": texts, "unrestricted_diagnostics": d_all.len()}));

    let exit_for = |ds: &[&Diag]| if ds.iter().any(|d| d.severity == 1) { 1 } else { 0 };
    for &mask in &case.subsets {
        for flag in ['d', 'e'] {
            if mask == 0 {
                continue;
            }
            probe.evals(1);
            let args = flag_args(flag, mask, case.spelling);
            let o = run_with(&args);
            if o.panicked() || o.timed_out {
                return Verdict::Fail(show("crash", &args, &o));
            }
            let got = match parse_diags(&o.stderr) {
                Ok(d) => d,
                Err(e) => return Verdict::Fail(show(&format!("restricted run: {e}"), &args, &o)),
            };
            let keep = |d: &&Diag| {
                let i = VALIDATORS.iter().position(|v| *v == d.code).unwrap();
                let in_set = mask & (1 << i) != 0;
                if flag == 'd' { !in_set } else { in_set }
            };
            let mut want: Vec<&Diag> = d_all.iter().filter(keep).collect();
            want.sort();
            let mut got_sorted: Vec<&Diag> = got.iter().collect();
            got_sorted.sort();
            if want != got_sorted {
                let lost: Vec<&&Diag> = want.iter().filter(|d| !got_sorted.contains(d)).collect();
                let extra: Vec<&&Diag> = got_sorted.iter().filter(|d| !want.contains(d)).collect();
                return Verdict::Fail(show(&format!("-{flag} {mask:#09b}: diagnostics differ from the filtered unrestricted run; lost {lost:?}; extra {extra:?}"), &args, &o));
            }
            if o.code != Some(exit_for(&want)) {
                return Verdict::Fail(show(&format!("-{flag} {mask:#09b}: exit {:?}, expected {}", o.code, exit_for(&want)), &args, &o));
            }
            probe.class(if flag == 'd' { "disable-subset" } else { "enable-subset" });
        }
    }
    // rejected usages: both flags, unknown names — before anything is validated (no endpoint request)
    let before = fake.seen().len();
    let rejects: Vec<Vec<String>> = vec![
        vec!["-e".into(), "keep-sorted".into(), "-d".into(), "line-count".into()],
        vec!["--disable=check-ai".into(), "--enable=check-ai".into()],
        vec!["-d".into(), "keep_sorted".into()],
        vec!["-e".into(), "nosuch".into()],
        vec!["-e".into(), "Keep-Sorted".into()],
        vec!["-d".into(), "".into()],
        // the same misuse around the `list` sub-command, in every order
        vec!["-e".into(), "keep-sorted".into(), "list".into(), "-d".into(), "line-count".into()],
        vec!["-d".into(), "check-lua".into(), "list".into(), "-e".into(), "affects".into()],
        vec!["list".into(), "-e".into(), "keep-unique".into(), "-d".into(), "keep-unique".into()],
        vec!["--enable=line-pattern".into(), "--disable=check-ai".into(), "list".into()],
        vec!["list".into(), "-e".into(), "nosuch".into()],
        vec!["-d".into(), "sorted".into(), "list".into()],
    ];
    for args in &rejects {
        probe.evals(1);
        let o = run_with(args);
        if o.panicked() || o.timed_out {
            return Verdict::Fail(show("crash on a rejected usage", args, &o));
        }
        if o.code == Some(0) {
            return Verdict::Fail(show("invalid flag usage accepted (exit 0)", args, &o));
        }
        if parse_diags(&o.stderr).map(|d| !d.is_empty()).unwrap_or(false) {
            return Verdict::Fail(show("invalid flag usage still produced a diagnostics report", args, &o));
        }
        if o.stdout.contains("is_content_modified") {
            return Verdict::Fail(show("invalid flag usage still printed a listing", args, &o));
        }
        probe.class("rejected-usage");
    }
    if fake.seen().len() != before {
        return Verdict::Fail(show(&format!("rejected usages caused {} endpoint request(s): something was validated", fake.seen().len() - before), &[], &base));
    }
    // whitespace-padded names: either rejected like any unknown name, or honoured exactly as the trimmed name —
    // never accepted and then ignored
    for (flag, padded) in [('d', "keep-sorted "), ('e', " keep-sorted"), ('e', "line-count "), ('d', "\taffects")] {
        probe.evals(1);
        let args = vec![format!("-{flag}"), padded.to_string()];
        let o = run_with(&args);
        if o.panicked() || o.timed_out {
            return Verdict::Fail(show("crash on a padded validator name", &args, &o));
        }
        let rejected = o.code != Some(0) && !parse_diags(&o.stderr).is_ok_and(|d| !d.is_empty());
        if rejected {
            probe.class("padded-name:rejected");
            continue;
        }
        let trimmed = vec![format!("-{flag}"), padded.trim().to_string()];
        let t = run_with(&trimmed);
        let (a, b) = (parse_diags(&o.stderr), parse_diags(&t.stderr));
        if a.is_err() || a != b || o.code != t.code {
            return Verdict::Fail(show(&format!("validator name {padded:?} was accepted but not honoured: the run differs from the one with the trimmed name {:?}\n--- with the trimmed name ---\n{}", padded.trim(), t.brief()), &args, &o));
        }
        probe.class("padded-name:honoured-as-trimmed");
    }
    Verdict::Pass
}

pub fn case_strategy(all_subsets: bool) -> BoxedStrategy<FlagCase> {
    let block = (0usize..7, proptest::bool::weighted(0.55), proptest::bool::weighted(0.25), 0usize..3, prop_oneof![3 => Just(0u8), 2 => 1u8..5]).prop_map(|(validator, violating, warning, file, second)| VBlock { validator, violating, warning, file, second });
    let subsets = if all_subsets {
        Just((1u8..128).collect::<Vec<u8>>()).boxed()
    } else {
        // singletons and co-singletons always, plus random subsets
        proptest::collection::vec(1u8..128, 6).prop_map(|mut v| {
            v.extend((0..7).map(|i| 1u8 << i));
            v.extend((0..7).map(|i| 127u8 & !(1u8 << i)));
            v.push(127);
            v.sort();
            v.dedup();
            v
        }).boxed()
    };
    (proptest::collection::vec(block, 1..14), 1usize..4, subsets, 0u8..12, prop_oneof![2 => Just(0u8), 3 => 1u8..6]).prop_map(|(blocks, files, subsets, spelling, prefix)| FlagCase { blocks, files, subsets, spelling, prefix }).boxed()
}

pub fn run(run: &mut Run) {
    run.rule = "random trees: 1..13 blocks (each owned by one of the seven validators, violating or satisfied, error or warning severity; 40% carry a second, line-independent line-count / line-pattern rule, satisfied or violated) spread over 1..3 files in random order; in 40% of the trees every file is new in the git diff (every block touched, affects live everywhere), in the others the first k blocks of each file are committed beforehand, the diff appends the rest and every file is also a path argument, so that untouched blocks - whose affects is not live - precede touched ones (satisfied links point at the same file or at a file holding nothing but a named block), check-ai answered by a recording fake endpoint, check-lua by echo/nil scripts; per tree the unrestricted run is compared with construction and then every chosen subset S is run as -d S and as -e S (quick: all singletons, all co-singletons, the full set and 6 random subsets; thorough: all 127 non-empty subsets) in varying flag spellings (short, long=, mixed, repeated, reversed), plus 12 rejected usages (six of them around the `list` sub-command). Non-trivial tree = some validator owns exactly one block and at least three validators report.".into();
    run.assumptions = vec!["hash-map iteration order inside blockwatch decides which block is visited last; it is sampled by repetition, not controlled".into()];
    let thorough = run.tier == crate::engine::Tier::Thorough;
    run.shrink_iters = 40;
    run.random("subsets", run.tier.pick(160, 1500), move || case_strategy(thorough), check);
}
