//! C10 — every diagnostic points at the text it is about.
use crate::builder::{self, Attr, Ev, StartTag, TruthBlock};
use crate::cli::{BwRun, Out, Sandbox};
use crate::engine::{Probe, Run, Verdict};
use crate::fakeai::{FakeAi, Reply};
use crate::langs::{self, SUFFIXES};
use crate::models::{self, KsOutcome};
use crate::report::parse_diags;
use proptest::prelude::*;
use serde::{Deserialize, Serialize};
use serde_json::json;

pub const RULES: &[&str] = &["keep-sorted", "keep-sorted-desc", "keep-unique", "line-pattern", "keep-sorted-regex", "keep-unique-regex", "line-count", "check-lua", "affects", "check-ai", "keep-unique-group", "keep-sorted-plain-regex"];

#[derive(Clone, Debug, Serialize, Deserialize)]
pub struct RangeCase {
    pub suffix: usize,
    pub events: Vec<Ev>,
    pub crlf: bool,
    /// rule per block (by order of Open events), index into RULES (mod)
    pub rules: Vec<u8>,
    /// diff mode (needed for affects): all files new
    pub diff_mode: bool,
    /// the file starts with 70 000 empty lines (line numbers beyond 65 535)
    #[serde(default)]
    pub far: bool,
}

fn rule_attrs(rule: &str) -> Vec<Attr> {
    match rule {
        "keep-sorted" => vec![Attr::simple("keep-sorted", "asc")],
        "keep-sorted-desc" => vec![Attr::simple("keep-sorted", "desc")],
        "keep-unique" => vec![Attr::bare("keep-unique")],
        "line-pattern" => vec![Attr::simple("line-pattern", "^[a-z]+$")],
        "keep-sorted-regex" => vec![Attr::simple("keep-sorted", "asc"), Attr::simple("keep-sorted-pattern", "id:(?P<value>[0-9]+)"), Attr::simple("keep-sorted-format", "numeric")],
        "keep-unique-regex" => vec![Attr::simple("keep-unique", "id:[0-9]+")],
        "keep-unique-group" => vec![Attr::simple("keep-unique", "id:(?P<value>[0-9]+)")],
        "keep-sorted-plain-regex" => vec![Attr::simple("keep-sorted", "desc"), Attr::simple("keep-sorted-pattern", "id:[0-9]+")],
        "line-count" => vec![Attr::simple("line-count", "<0")],
        "check-lua" => vec![Attr::simple("check-lua", "echo.lua")],
        "affects" => vec![Attr::simple("affects", ":no-such-block")],
        "check-ai" => vec![Attr::simple("check-ai", "never satisfied")],
        _ => unreachable!(),
    }
}

/// (absolute byte offset, key text) of the expected key designated by a key rule, from the reference models.
fn expected_key(rule: &str, text: &str, b: &TruthBlock) -> Option<(usize, String)> {
    if b.same_comment {
        return None;
    }
    let content = &b.content;
    let lines: Vec<&str> = content.split('\n').collect();
    let hit: Option<(usize, models::Span)> = match rule {
        "keep-sorted" | "keep-sorted-desc" => match models::keep_sorted(&lines, if rule == "keep-sorted" { models::Dir::Asc } else { models::Dir::Desc }, None, false) {
            KsOutcome::OutOfOrder(i, sp) => Some((i, sp)),
            _ => None,
        },
        "keep-unique" => models::keep_unique(&lines, None),
        "line-pattern" => models::line_pattern(&lines, models::line_pat("^[a-z]+$").unwrap()),
        "keep-sorted-regex" => match models::keep_sorted(&lines, models::Dir::Asc, models::key_pat("id:(?P<value>[0-9]+)"), true) {
            KsOutcome::OutOfOrder(i, sp) => Some((i, sp)),
            _ => None,
        },
        "keep-unique-regex" => models::keep_unique(&lines, models::key_pat("id:[0-9]+")),
        "keep-unique-group" => models::keep_unique(&lines, models::key_pat("id:(?P<value>[0-9]+)")),
        "keep-sorted-plain-regex" => match models::keep_sorted(&lines, models::Dir::Desc, models::key_pat("id:[0-9]+"), false) {
            KsOutcome::OutOfOrder(i, sp) => Some((i, sp)),
            _ => None,
        },
        _ => None,
    };
    let (i, (s, e)) = hit?;
    let line_off: usize = lines[..i].iter().map(|l| l.len() + 1).sum();
    let abs = b.start_comment.1 + line_off + s;
    debug_assert_eq!(&text[abs..abs + (e - s)], &lines[i][s..e]);
    Some((abs, lines[i][s..e].to_string()))
}

/// Byte offset of a 1-based (line, byte column) position.
fn offset_of(text: &str, line: u64, col: u64) -> Option<usize> {
    let mut off = 0usize;
    for (i, l) in text.split_inclusive('\n').enumerate() {
        if i as u64 + 1 == line {
            let o = off + col as usize - 1;
            return if col >= 1 && o <= off + l.len() { Some(o) } else { None };
        }
        off += l.len();
    }
    None
}

pub fn check(c: &RangeCase, probe: &Probe) -> Verdict {
    let (suffix, lid) = SUFFIXES[c.suffix % SUFFIXES.len()];
    let lang = langs::lang(lid);
    // attach one rule per block
    let mut k = 0usize;
    let mut chosen: Vec<&str> = vec![];
    let events: Vec<Ev> = builder::balance(&c.events)
        .into_iter()
        .map(|e| match e {
            Ev::Open { tag, place } => {
                let mut r = RULES[*c.rules.get(k % c.rules.len().max(1)).unwrap_or(&0) as usize % RULES.len()];
                if !c.diff_mode && (r == "affects" || r == "check-ai") {
                    r = "line-count";
                }
                k += 1;
                chosen.push(r);
                let mut attrs: Vec<Attr> = tag.attrs.iter().filter(|a| a.name == "name" || a.name == "note").cloned().collect();
                attrs.extend(rule_attrs(r));
                Ev::Open { tag: StartTag { attrs, ws_end: tag.ws_end.clone() }, place }
            }
            o => o,
        })
        .collect();
    let mut built = builder::build_raw(lang, &events, c.crlf);
    if c.far {
        built = built.with_blank_prefix(super::c03::FAR_LINES, c.crlf);
        probe.class("line-numbers-beyond-65535");
    }
    if built.blocks.iter().any(|b| b.end_col > 65_535) {
        probe.class("columns-beyond-65535");
    }
    if langs::healthy(lang.id, &built.text) == Some(false) {
        return Verdict::Unspecified("generated source is not accepted by the language's own grammar");
    }
    let text = &built.text;
    let file = langs::file_name("r", suffix);
    // expectations: blocks are in source order == order of Open events
    let mut want: Vec<(String, u64, u64, u64, u64, String)> = vec![];
    let mut unspecified_at: Vec<(u64, u64)> = vec![];
    let mut nontrivial = false;
    for (b, rule) in built.blocks.iter().zip(&chosen) {
        // the host comment form may have altered an attribute value (e.g. parentheses inside a Markdown
        // `( … )` title): then the rule is not the one the model knows
        for a in rule_attrs(rule) {
            let want_v = match &a.val {
                builder::Val::Double(v) | builder::Val::Single(v) | builder::Val::Unquoted(v) => v.clone(),
                builder::Val::None => String::new(),
            };
            if b.attrs.get(&a.name) != Some(&want_v) {
                return Verdict::Unspecified("a rule attribute was altered by the host comment form");
            }
        }
        let code = match *rule {
            "keep-sorted" | "keep-sorted-desc" | "keep-sorted-regex" | "keep-sorted-plain-regex" => "keep-sorted",
            "keep-unique" | "keep-unique-regex" | "keep-unique-group" => "keep-unique",
            other => other,
        };
        match *rule {
            "affects" if b.same_comment => {
                // whether a block without content can count as modified is unspecified: either way is accepted
                unspecified_at.push((b.line as u64, b.col as u64));
            }
            "line-count" | "check-lua" | "affects" | "check-ai" => {
                want.push((code.to_string(), b.line as u64, b.col as u64, b.end_line as u64, b.end_col as u64, text[b.tag_span.0..b.tag_span.1].to_string()));
                if b.tag_on_later_line || b.multiline_tag || b.comment_continues_after_tag_line {
                    nontrivial = true;
                }
            }
            _ => {
                if let Some((abs, key)) = expected_key(rule, text, b) {
                    let (l, col) = builder::line_col(text, abs);
                    want.push((code.to_string(), l as u64, col as u64, l as u64, (col + key.len() - 1) as u64, key.clone()));
                    let line_start = text[..abs].rfind('\n').map(|p| p + 1).unwrap_or(0);
                    let before = &text[line_start..abs];
                    if b.comment_continues_after_tag_line || b.tag_on_later_line || l == b.end_line || before.len() != before.chars().count() || b.lenient_start {
                        nontrivial = true;
                    }
                }
            }
        }
        probe.class(&format!("rule:{rule}"));
    }
    want.sort();
    if nontrivial {
        probe.nontrivial();
    }
    probe.class(&format!("suffix:{suffix}"));
    let sb = if c.diff_mode { Sandbox::new() } else { Sandbox::with_fake_git() };
    sb.write("echo.lua", super::c11::ECHO_LUA.as_bytes());
    let fake = FakeAi::start(|_, _| Reply::Text("no".into()));
    let out = if c.diff_mode {
        sb.init_repo();
        sb.commit_all("base");
        sb.write(&file, text.as_bytes());
        sb.git_ok(&["add", "-A"]);
        let d = sb.git_diff(&["--cached"]);
        probe.child();
        sb.bw(&BwRun::diff(&[], d.as_bytes()).env("BLOCKWATCH_AI_API_URL", &fake.url()).env("BLOCKWATCH_AI_API_KEY", "k").env("BLOCKWATCH_AI_MODEL", "m"))
    } else {
        sb.write(&file, text.as_bytes());
        probe.child();
        sb.bw(&BwRun::scan(&[&file]))
    };
    let show = |what: &str, o: &Out| {
        format!(
            "C10 [{suffix}]: {what}\n--- {file} ---\n{text}\n--- expected (code, start line, start col, end line, end col, text there) ---\n{}\n--- observed ---\n{}",
            want.iter().map(|w| format!("  {w:?}")).collect::<Vec<_>>().join("\n"),
            o.brief()
        )
    };
    probe.sample(|| json!({"file": file, "text": crate::cli::trunc(text, 500), "expected_ranges": want.iter().map(|w| format!("{w:?}")).collect::<Vec<_>>()}));
    if out.timed_out || out.panicked() {
        return Verdict::Fail(show("crash", &out));
    }
    let diags = match parse_diags(&out.stderr) {
        Ok(d) => d,
        Err(e) => return Verdict::Fail(show(&format!("no report: {e}"), &out)),
    };
    // every reported range, sliced out of the file, must be the text it is about
    let mut got: Vec<(String, u64, u64, u64, u64, String)> = vec![];
    for d in &diags {
        if d.code == "affects" && unspecified_at.contains(&(d.sl, d.sc)) {
            continue;
        }
        let (Some(s), Some(e)) = (offset_of(text, d.sl, d.sc), offset_of(text, d.el, d.ec)) else {
            return Verdict::Fail(show(&format!("range of {d:?} lies outside the file"), &out));
        };
        if e < s || !text.is_char_boundary(s) {
            return Verdict::Fail(show(&format!("range of {d:?} is inverted or splits a character"), &out));
        }
        let mut e2 = e + 1;
        while e2 < text.len() && !text.is_char_boundary(e2) {
            e2 += 1;
        }
        got.push((d.code.clone(), d.sl, d.sc, d.el, d.ec, text[s..e2.min(text.len())].to_string()));
    }
    got.sort();
    if got != want {
        let missing: Vec<_> = want.iter().filter(|w| !got.contains(w)).collect();
        let extra: Vec<_> = got.iter().filter(|g| !want.contains(g)).collect();
        return Verdict::Fail(show(&format!("reported ranges do not delimit the offending key / the start tag.\n expected but not reported so: {missing:?}\n reported (with the file text at that range): {extra:?}"), &out));
    }
    Verdict::Pass
}

pub fn case_strategy() -> BoxedStrategy<RangeCase> {
    let ev = prop_oneof![
        3 => (builder::simple_tag_strategy(), builder::place_strategy()).prop_map(|(tag, place)| Ev::Open { tag, place }),
        3 => (any::<u8>(), builder::place_strategy()).prop_map(|(spelling, place)| Ev::Close { spelling: if spelling < 160 { 0 } else { spelling }, place }),
        3 => any::<u16>().prop_map(Ev::Code),
        4 => (0u16..12).prop_map(Ev::KeyLine),
        1 => (any::<u8>(), any::<u8>(), 0u8..6).prop_map(|(form, text, indent)| Ev::Noise { form, text, indent }),
        1 => Just(Ev::Blank),
    ];
    (0..SUFFIXES.len(), proptest::collection::vec(ev, 2..24), proptest::bool::weighted(0.1), proptest::collection::vec(0u8..12, 12), any::<bool>())
        .prop_map(|(suffix, events, crlf, rules, diff_mode)| RangeCase { suffix, events, crlf, rules, diff_mode, far: false })
        .boxed()
}

/// Small scope: one block whose first content line breaks its line-pattern, under every suffix x comment form x
/// indentation x comment shape (one line / tag after a line break / text after the tag on a later line) x code
/// before the comment x code or text after it on the closing line (where the form allows it) x Markdown
/// container: the designated key sits on the very first content line, whose column depends on where the
/// start tag's comment ends.
pub fn first_line_cases() -> Vec<RangeCase> {
    let mut out = vec![];
    for (si, (_, lid)) in SUFFIXES.iter().enumerate() {
        let lang = langs::lang(lid);
        let nforms = builder::forms(lang).len();
        for f in 0..nforms {
            let form = builder::forms(lang)[f];
            let containers: &[u8] = if lang.markdown { &[0, 1, 2, 3, 4] } else { &[0] };
            let docs: &[bool] = if matches!(form, builder::Form::Block | builder::Form::MdRef(_)) { &[false, true] } else { &[false] };
            for &indent in &[0u8, 2, 5] {
                for shape in 0..4u8 {
                    for &lead in &[false, true] {
                        for &container in containers {
                            for &doc in docs {
                                if container != 0 && (indent != 0 || (shape != 0 && form != builder::Form::MdHtml)) {
                                    continue; // inside containers: HTML comments of any shape, definitions on one line
                                }
                                let place = builder::Place { form: f as u8, trail: true, lead, nl_before: shape & 1 != 0, nl_after: shape & 2 != 0, post: if shape & 2 != 0 { 1 } else { 0 }, indent, doc, container, ..Default::default() };
                                let events = vec![
                                    Ev::Code(1),
                                    Ev::Open { tag: StartTag { attrs: vec![Attr::simple("name", "first")], ws_end: String::new() }, place },
                                    Ev::Code(2),
                                    Ev::Code(3),
                                    Ev::Close { spelling: 0, place: builder::Place { form: f as u8, ..Default::default() } },
                                    Ev::Code(4),
                                ];
                                out.push(RangeCase { suffix: si, events: events.clone(), crlf: (si + f + shape as usize) % 5 == 0, rules: vec![3], diff_mode: false, far: false });
                                if indent == 0 && shape == 0 && !lead && container == 0 && !doc {
                                    // the same below 70 000 empty lines, and with a 70 000-byte attribute in front of the
                                    // content: line numbers and columns beyond 65 535
                                    out.push(RangeCase { suffix: si, events: events.clone(), crlf: false, rules: vec![3], diff_mode: false, far: true });
                                    let mut wide = events;
                                    if let Ev::Open { tag, .. } = &mut wide[1] {
                                        tag.attrs.push(Attr::simple("note", &"x".repeat(70_000)));
                                    }
                                    out.push(RangeCase { suffix: si, events: wide, crlf: false, rules: vec![3], diff_mode: false, far: false });
                                }
                            }
                        }
                    }
                }
            }
        }
    }
    out
}

/// Keys behind (and in front of) white space that is not ASCII: the reported columns are BYTE columns of the
/// trimmed key, whatever the blanks around it weigh. One batch per host; each block holds a healthy first line and
/// an offending second line `<lead><key><trail>` for one of the three key rules.
#[derive(Clone, Debug, Serialize, Deserialize)]
pub struct PaddedKeys {
    /// 0 sh, 1 rb, 2 sh with CRLF, 3 sh with the end tag trailing the last content line
    pub host: u8,
    /// (rule 0 keep-sorted / 1 keep-unique / 2 line-pattern, index into PAD_LEAD, index into PAD_TRAIL, indent of the tag comments)
    pub blocks: Vec<(u8, u8, u8, u8)>,
}

pub const PAD_LEAD: &[&str] = &["\u{a0}", "\u{a0}\u{a0}", "\u{3000}", "\u{2003}", "\u{85}", "\t\u{3000}", " \u{a0}", "\u{a0} ", "\u{2028}", "  ", ""];
pub const PAD_TRAIL: &[&str] = &["", "\u{a0}", " \u{3000}", "\t"];

pub fn check_padded(c: &PaddedKeys, probe: &Probe) -> Verdict {
    use crate::rules::{ExpDiag, Host, RuleBlock};
    let host = [Host::Sh, Host::Rb, Host::ShCrlf, Host::ShTrail][c.host as usize % 4];
    let mut blocks = vec![];
    let mut spans = vec![];
    for (i, (rule, lead, trail, indent)) in c.blocks.iter().enumerate() {
        let lead = PAD_LEAD[*lead as usize % PAD_LEAD.len()];
        let trail = PAD_TRAIL[*trail as usize % PAD_TRAIL.len()];
        let (attr, first, key): ((String, Option<String>), &str, &str) = match rule % 3 {
            0 => (("keep-sorted".into(), Some("asc".into())), "banana", "apple"),
            1 => (("keep-unique".into(), None), "  dup", "dup"),
            _ => (("line-pattern".into(), Some("^[a-z]+$".into())), "ok", "bad-1"),
        };
        // (a trailing blank would be content of the end-tag line under the trailing-end-tag layout: none there)
        let trail = if host == Host::ShTrail { "" } else { trail };
        blocks.push(RuleBlock { attrs: vec![("name".into(), Some(format!("p{i}"))), attr], lines: vec![first.to_string(), format!("{lead}{key}{trail}")], indent: (*indent % 4) as usize });
        spans.push((["keep-sorted", "keep-unique", "line-pattern"][(*rule % 3) as usize], (lead.len(), lead.len() + key.len())));
        if !lead.is_ascii() {
            probe.nontrivial_sub(&(i, lead, key));
        }
        probe.class(if lead.is_ascii() { "padded-keys:ascii-lead" } else { "padded-keys:multi-byte-lead" });
    }
    probe.evals(c.blocks.len() as u64 - 1);
    let exp = |i: usize, pos: &crate::rules::BlockPos| -> Vec<ExpDiag> { vec![ExpDiag::key(spans[i].0, pos, 1, spans[i].1)] };
    let reduce = |i: usize| serde_json::to_value(PaddedKeys { host: c.host, blocks: vec![c.blocks[i]] }).unwrap();
    super::linerules::check_rule_batch("C10", host, &blocks, &exp, probe, &reduce)
}

pub fn padded_items() -> Vec<PaddedKeys> {
    let mut out = vec![];
    for host in 0..4u8 {
        let mut blocks = vec![];
        for rule in 0..3u8 {
            for lead in 0..PAD_LEAD.len() as u8 {
                for trail in 0..PAD_TRAIL.len() as u8 {
                    blocks.push((rule, lead, trail, (lead + trail) % 3));
                }
            }
        }
        out.push(PaddedKeys { host, blocks });
    }
    out
}

pub fn run(run: &mut Run) {
    run.rule = "enumerated padded-keys: the offending key of a keep-sorted / keep-unique / line-pattern block behind 11 leading and in front of 4 trailing white-space runs that are not (only) ASCII (NBSP, ideographic space, em space, NEL, U+2028, tab + ideographic space, ...) in LF / CRLF shell files, Ruby files and shell files whose end tag trails the last line: the range is the trimmed key in BYTE columns. enumerated first-line: under every suffix x comment form x indentation {0,2,5} x comment shape (one line, tag after a line break, text after the tag on a later line, both) x code before the comment x code / text after it on its closing line x Markdown container, one block whose first content line breaks its line-pattern (the key's column depends on where the start tag's comment ends); the plainest shape of every form also below 70 000 empty lines and with a 70 000-byte attribute in the tag (line numbers and columns beyond 65 535). random: a generated source file of any of the 39 suffixes (every comment layout of the builder: own-line and trailing line comments, block comments with code before/after, tag on a later line of a multi-line comment, comments continuing after the tag, multi-line tags, several tags per comment, Markdown/HTML forms, indentation, CRLF) whose blocks each carry one rule from {keep-sorted asc/desc, keep-unique, line-pattern, keep-sorted with a numeric regex key in the middle of a line after multi-byte text, keep-unique with a regex, line-count, check-lua, affects (diff mode), check-ai (fake endpoint)}; content is whatever the file holds between the comments (code lines, key lines, nested tag comments, noise). Expected: key rules -> the key computed by the C06–C08 reference models on the constructed content, located by absolute offset; tag rules -> the constructed start tag from `<` to `>`. Every reported range is sliced out of the file's bytes and compared (text and numbers). Non-trivial = the tag is not on the last line of its comment / sits on a later line / is multi-line, or the key is on the tag's or end tag's line, preceded by multi-byte text, or after a comment form that swallows its line terminator.".into();
    run.assumptions = vec!["grammar-rejected sources are discarded; regex keys come from the fixed family with hand-written extractors".into()];
    run.enumerate("first-line", first_line_cases(), Some("one line-pattern block per suffix x comment form x indentation x comment shape x code before / after the comment x Markdown container"), check);
    run.enumerate("padded-keys", padded_items(), Some("3 key rules x 11 leading x 4 trailing white-space runs (NBSP, ideographic space, em space, NEL, U+2028, tab + ideographic space, mixed with ASCII blanks) x 4 shell / Ruby layouts"), check_padded);
    run.random("ranges", run.tier.pick(2500, 60000), case_strategy, check);
}
