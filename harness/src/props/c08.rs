//! C08 — line-pattern reports a block iff some line fails the regex.
use crate::engine::{Probe, Run, Verdict};
use crate::models;
use crate::rules::{ExpDiag, Host, RuleBlock};
use proptest::prelude::*;
use serde::{Deserialize, Serialize};
use serde_json::json;

#[derive(Clone, Debug, PartialEq, Eq, Hash, Serialize, Deserialize)]
pub struct LpSpec {
    pub re: String,
    pub lines: Vec<String>,
    pub indent: usize,
    /// (a, n): lines a..a+n (clamped) form a nested block carrying the SAME pattern; its tag comments are lines
    /// of the outer block, its lines belong to both
    #[serde(default)]
    pub inner: Option<(u8, u8)>,
}

#[derive(Clone, Debug, Serialize, Deserialize)]
pub struct LpBatch {
    pub host: Host,
    pub specs: Vec<LpSpec>,
}

impl LpSpec {
    /// the nested block's range of `lines` (not under the trailing-end-tag layout, whose last line carries the outer end tag)
    fn inner_range(&self, host: Host) -> Option<(usize, usize)> {
        let (a, n) = self.inner?;
        if host == Host::ShTrail {
            return None;
        }
        let a = (a as usize).min(self.lines.len());
        Some((a, (a + n as usize).min(self.lines.len())))
    }
    /// the lines of the (outer) block as written: with the nested block's tag comments
    fn written_lines(&self, host: Host) -> Vec<String> {
        let Some((a, b)) = self.inner_range(host) else { return self.lines.clone() };
        let mut v = self.lines[..a].to_vec();
        v.push(format!("{}{}", host.open(), crate::rules::render_tag(&[("line-pattern".into(), Some(self.re.clone()))])));
        v.extend_from_slice(&self.lines[a..b]);
        v.push(format!("{}</block>", host.open()));
        v.extend_from_slice(&self.lines[b..]);
        v
    }
    pub fn to_block(&self, i: usize, host: Host) -> RuleBlock {
        RuleBlock {
            attrs: vec![("name".into(), Some(format!("b{i}"))), ("line-pattern".into(), Some(self.re.clone()))],
            lines: self.written_lines(host),
            indent: self.indent,
        }
    }
    pub fn model(&self, host: Host) -> Option<(usize, models::Span)> {
        let w = self.written_lines(host);
        let lines: Vec<&str> = w.iter().map(String::as_str).collect();
        models::line_pattern(&lines, models::line_pat(&self.re).expect("pattern from the family"))
    }
    /// (index of the nested block's content line 0 within the written lines, its own first failing line)
    pub fn inner_model(&self, host: Host) -> Option<(usize, Option<(usize, models::Span)>)> {
        let (a, b) = self.inner_range(host)?;
        let lines: Vec<&str> = self.lines[a..b].iter().map(String::as_str).collect();
        Some((a + 1, models::line_pattern(&lines, models::line_pat(&self.re).expect("pattern from the family"))))
    }
}

pub fn check_batch(b: &LpBatch, probe: &Probe) -> Verdict {
    let blocks: Vec<RuleBlock> = b.specs.iter().enumerate().map(|(i, s)| s.to_block(i, b.host)).collect();
    let outcomes: Vec<_> = b.specs.iter().map(|s| s.model(b.host)).collect();
    let inner: Vec<_> = b.specs.iter().map(|s| s.inner_model(b.host)).collect();
    probe.evals(b.specs.len() as u64 - 1);
    for (s, o) in b.specs.iter().zip(&outcomes) {
        let pat = models::line_pat(&s.re).unwrap();
        let nonblank: Vec<&String> = s.lines.iter().filter(|l| !l.trim().is_empty()).collect();
        let has_blank = nonblank.len() < s.lines.len();
        let padded = nonblank.iter().any(|l| l.trim() != l.as_str());
        let mixed = nonblank.iter().any(|l| (pat.matches)(l.trim())) && nonblank.iter().any(|l| !(pat.matches)(l.trim()));
        if nonblank.len() >= 2 && (mixed || has_blank || padded) {
            probe.nontrivial_sub(s);
        }
        probe.class(if o.is_some() { "some-line-fails" } else { "all-lines-match" });
        if let Some((at, io)) = s.inner_model(b.host) {
            probe.class("nested-block-with-the-same-pattern");
            if let (Some((oi, _)), Some((ii, _))) = (o, io)
                && *oi == at + ii
            {
                probe.class("nested:outer-and-inner-designate-the-same-line");
            }
        }
    }
    probe.sample(|| {
        let s = &b.specs[b.specs.len() / 2];
        json!({"host": format!("{:?}", b.host), "batch_size": b.specs.len(), "one_block": s, "model_first_failing": format!("{:?}", s.model(b.host))})
    });
    let exp = |i: usize, pos: &crate::rules::BlockPos| -> Vec<ExpDiag> {
        let mut v = vec![];
        if let Some((idx, span)) = &outcomes[i] {
            v.push(ExpDiag::key("line-pattern", pos, *idx, *span));
        }
        if let Some((at, Some((idx, span)))) = &inner[i] {
            v.push(ExpDiag::key("line-pattern", pos, at + idx, *span));
        }
        v
    };
    let reduce = |i: usize| serde_json::to_value(LpBatch { host: b.host, specs: vec![b.specs[i].clone()] }).unwrap();
    super::linerules::check_rule_batch("C08", b.host, &blocks, &exp, probe, &reduce)
}

const ALPHA: &[&str] = &["abc", "x1", "xy", "a b", "  xy  ", "Abc", "é1", "", "  ", "TODO: x y", "\u{a0}abc\u{3000}", "\u{2003}", "--"];

const EDGE_BLANK: &[&str] = &["^- ", " = ", "^a.b$"];
const ALPHA_EDGE: &[&str] = &["- a", "-a", "a = b", "a=b", "  - a = b  ", "", "-", "- ", "a\rb", "a-b", "ab"];

pub fn enumerated(max_len: usize, batch: usize) -> Vec<LpBatch> {
    let mut specs = vec![];
    for len in 0..=max_len {
        for seq in super::c06::sequences(ALPHA, len).into_iter().filter(|s| s.len() == len) {
            for p in models::LINE_PATS.iter().filter(|p| !EDGE_BLANK.contains(&p.re)) {
                specs.push(LpSpec { re: p.re.to_string(), lines: seq.clone(), indent: 0, inner: None });
            }
        }
        // patterns with a significant blank at an edge, over lines that differ in exactly that blank
        for seq in super::c06::sequences(ALPHA_EDGE, len).into_iter().filter(|s| s.len() == len) {
            for re in EDGE_BLANK {
                specs.push(LpSpec { re: re.to_string(), lines: seq.clone(), indent: 0, inner: None });
            }
        }
    }
    specs.chunks(batch).enumerate().map(|(k, c)| LpBatch { host: if k % 3 == 2 { Host::ShCrlf } else if k % 3 == 1 { Host::ShTrail } else { Host::Sh }, specs: c.to_vec() }).collect()
}

fn long_spec() -> BoxedStrategy<LpSpec> {
    let line = prop_oneof![
        6 => proptest::string::string_regex("[a-z]{1,8}").unwrap(),
        1 => proptest::string::string_regex("[a-z]{1,4}[0-9A-Zé名 ][a-z]{0,4}").unwrap(),
        1 => Just(String::new()),
        1 => Just("   ".to_string()),
    ];
    // (a third of the blocks hold a nested block with the same pattern; `[0-9]`, ` = ` and `\b` accept its start-tag
    // comment — digits / the quoted pattern / word characters —, so the outer block reads on into the shared lines)
    (prop_oneof![2 => 0..models::LINE_PATS.len(), 1 => Just(1usize), 1 => Just(12usize), 1 => Just(14usize)], proptest::collection::vec((line, 0usize..4, 0usize..3), 5..150), 0usize..3, proptest::option::weighted(0.35, (prop_oneof![1 => Just(0u8), 2 => 0u8..12], 0u8..8)))
        .prop_map(|(pi, ls, indent, inner)| LpSpec {
            re: models::LINE_PATS[pi].re.to_string(),
            lines: ls.into_iter().map(|(w, l, t)| format!("{}{w}{}", " ".repeat(l), " ".repeat(t))).collect(),
            indent,
            inner,
        })
        .boxed()
}

pub fn random_batch() -> BoxedStrategy<LpBatch> {
    (prop_oneof![Just(Host::Sh), Just(Host::Rb), Just(Host::ShCrlf), Just(Host::ShTrail)], proptest::collection::vec(long_spec(), 1..6)).prop_map(|(host, specs)| LpBatch { host, specs }).boxed()
}

pub fn run(run: &mut Run) {
    run.rule = "every rendered file spells `name=value` in one of three ways (`=`, ` = `, ` =`), drawn from its first block. layouts: own-line tag comments in LF and CRLF shell files, and shell files whose end-tag comment trails the last content line. enumerated: every line sequence of length 0..k (k=4 quick, 5 thorough) over a 13-line alphabet (matching, non-matching, indented, blank, partially matching lines) x 19 anchored/unanchored patterns with hand-written predicates (two whose only regex construct is a counted repetition: `x{1}y`, `a{2}`) (three of them with inline flags / a Unicode class: `(?i)^abc$`, `^\\p{Lu}`, `(?x) ^ x \\d $`) (7 of them can match the empty string - two of those anchored at both ends, so that they still reject lines -, one is a bare zero-width assertion), plus 3 special patterns (a significant blank at an edge; `^a.b$`) over an 11-line alphabet of lines differing in exactly that blank, or holding a bare carriage return in the middle; random: blocks of 5..150 lines incl. Unicode, a third of them holding a nested block that carries the same pattern (its tag comments are lines of the outer block, its lines are judged twice; expected: one diagnostic per block, possibly at the same line). Non-trivial block = at least 2 non-blank lines and (matching and failing lines mixed, a blank line, or a padded line); distinct by (batch, block).".into();
    run.assumptions = vec![
        "content lines are shell/ruby words (block discovery itself is C03)".into(),
        "patterns come from a fixed family with hand-written predicates".into(),
    ];
    let k = run.tier.pick(4, 5);
    run.enumerate("enum", enumerated(k, 400), Some(&format!("all line sequences of length <= {k} over the stated alphabet x 19 patterns")), check_batch);
    run.random("long", run.tier.pick(400, 8000), random_batch, check_batch);
}
