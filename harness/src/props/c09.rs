//! C09 — line-count reports a block iff its size breaks the bound.
use crate::engine::{Probe, Run, Verdict};
use crate::models::{self, Op};
use crate::rules::{BlockPos, ExpDiag, Rendered, quote_attr};
use proptest::prelude::*;
use serde::{Deserialize, Serialize};
use serde_json::json;

#[derive(Clone, Copy, Debug, PartialEq, Eq, Hash, Serialize, Deserialize)]
pub enum Layout {
    /// own-line `// <block>` … `// </block>`
    Standard,
    /// `/* <block> */ x;` first content line on the tag's line, end tag on its own line
    ContentOnTagLine,
    /// `/* <block> */ x; /* </block> */` everything on one line (at most one content line)
    Inline,
    /// `/* <block> </block> */` both tags in one comment: no content
    SameComment,
    /// standard, with a nested block (its two tag lines count like any other line)
    Nested,
}

#[derive(Clone, Copy, Debug, PartialEq, Eq, Hash, Serialize, Deserialize)]
pub enum Blanks {
    None,
    First,
    Last,
    Middle,
    Around,
}

#[derive(Clone, Debug, PartialEq, Eq, Hash, Serialize, Deserialize)]
pub struct LcSpec {
    /// attribute value as written, e.g. "<= 3"
    pub expr: String,
    /// number of non-blank content lines written (before the nested block's two tag lines)
    pub lines: usize,
    pub blanks: Blanks,
    pub layout: Layout,
}

#[derive(Clone, Debug, Serialize, Deserialize)]
pub struct LcBatch {
    pub specs: Vec<LcSpec>,
}

const FILE: &str = "batch.js";

/// Renders the selected specs; returns positions and, per block, the constructed content text.
fn render(specs: &[&LcSpec]) -> (Rendered, Vec<String>) {
    let mut text = String::new();
    let mut pos = vec![];
    let mut contents = vec![];
    let mut line = 1usize;
    // one spelling of `=` per rendered file, drawn from its first block: a file may hold no compact `line-count=` at all
    let eq = match specs.first().map(|s| (s.lines + s.expr.len()) % 5) {
        Some(1) => " = ",
        Some(2) => " =",
        _ => "=",
    };
    // one rendered file in seven starts with a byte-order mark (drawn from its first block, so that a reduced case keeps it)
    if specs.first().is_some_and(|s| (s.lines + s.expr.len()) % 7 == 3) {
        text.push_str("\u{feff}let bom_first = 0;\n");
        line += 1;
    }
    for (i, s) in specs.iter().enumerate() {
        let tag = format!("<block name{eq}\"b{i}\" line-count{eq}{}>", quote_attr(&s.expr));
        let mut body: Vec<String> = (0..s.lines).map(|k| format!("x{k};")).collect();
        if s.layout == Layout::Nested {
            let mid = body.len() / 2;
            body.insert(mid, "// </block>".into());
            body.insert(mid, "// <block name=\"inner\">".into());
        }
        let blank = |k: usize| match k % 3 {
            0 => String::new(),
            1 => "   ".to_string(),
            _ => "\u{3000}\u{a0}".to_string(), // blank by Unicode white space
        };
        match s.blanks {
            Blanks::None => {}
            Blanks::First => body.insert(0, blank(i)),
            Blanks::Last => body.push(blank(i)),
            Blanks::Middle => body.insert(body.len() / 2, blank(i)),
            Blanks::Around => {
                body.insert(0, blank(i));
                body.push(blank(i + 1));
                body.insert(body.len() / 2, blank(i));
            }
        }
        let start_line = line;
        let (tag_sc, content, first_line, end_line);
        match s.layout {
            Layout::Standard | Layout::Nested => {
                text.push_str(&format!("// {tag}\n"));
                tag_sc = 4;
                let mut c = String::from("\n");
                for l in &body {
                    text.push_str(l);
                    text.push('\n');
                    c.push_str(l);
                    c.push('\n');
                }
                text.push_str("// </block>\n\n");
                first_line = start_line + 1;
                end_line = start_line + 1 + body.len();
                line = end_line + 2;
                content = c;
            }
            Layout::ContentOnTagLine => {
                text.push_str(&format!("/* {tag} */"));
                tag_sc = 4;
                let mut c = String::new();
                for (k, l) in body.iter().enumerate() {
                    if k == 0 {
                        c.push(' ');
                    }
                    c.push_str(l);
                    c.push('\n');
                }
                if body.is_empty() {
                    c.push('\n');
                }
                text.push_str(&c);
                text.push_str("/* </block> */\n\n");
                first_line = start_line;
                end_line = start_line + body.len().max(1);
                line = end_line + 2;
                content = c;
            }
            Layout::Inline => {
                // at most one content line fits on the tag's line
                let c = match body.first() {
                    Some(l) => format!(" {l} "),
                    None => " ".to_string(),
                };
                text.push_str(&format!("/* {tag} */{c}/* </block> */\n\n"));
                tag_sc = 4;
                first_line = start_line;
                end_line = start_line;
                line = start_line + 2;
                content = c;
            }
            Layout::SameComment => {
                text.push_str(&format!("/* {tag} </block> */\n\n"));
                tag_sc = 4;
                first_line = start_line;
                end_line = start_line;
                line = start_line + 2;
                content = String::new();
            }
        }
        pos.push(BlockPos { tag_line: start_line, tag_sc, tag_ec: tag_sc + tag.len() - 1, first_line, end_line });
        contents.push(content);
    }
    (Rendered { text, pos }, contents)
}

fn normalise(s: &LcSpec) -> LcSpec {
    // Inline holds at most one line and no separate blank lines; SameComment holds nothing.
    let mut s = s.clone();
    match s.layout {
        Layout::Inline => {
            s.lines = s.lines.min(1);
            s.blanks = Blanks::None;
        }
        Layout::SameComment => {
            s.lines = 0;
            s.blanks = Blanks::None;
        }
        _ => {}
    }
    s
}

pub fn check_batch(b: &LcBatch, probe: &Probe) -> Verdict {
    let specs: Vec<LcSpec> = b.specs.iter().map(normalise).collect();
    let n = specs.len();
    probe.evals(n as u64 - 1);
    let parsed: Vec<(Op, u64)> = specs.iter().map(|s| models::parse_line_count(&s.expr).expect("generator emits valid expressions only")).collect();
    let render_sel = |idx: &[usize]| -> Rendered {
        let sel: Vec<&LcSpec> = idx.iter().map(|&i| &specs[i]).collect();
        render(&sel).0
    };
    let all: Vec<&LcSpec> = specs.iter().collect();
    let (_, contents) = render(&all);
    let actual: Vec<u64> = contents.iter().map(|c| models::count_nonblank(c)).collect();
    for i in 0..n {
        let (op, nn) = parsed[i];
        // independent cross-check of the constructed count
        let by_construction = specs[i].lines as u64 + if specs[i].layout == Layout::Nested { 2 } else { 0 };
        assert_eq!(actual[i], by_construction, "harness: constructed content count mismatch for {:?}", specs[i]);
        let boundary = actual[i] == nn || actual[i] + 1 == nn || actual[i] == nn.saturating_add(1);
        if boundary || specs[i].blanks != Blanks::None || specs[i].layout != Layout::Standard {
            probe.nontrivial_sub(&specs[i]);
        }
        probe.class(if op.holds(actual[i], nn) { "bound-holds" } else { "bound-broken" });
        probe.class(&format!("layout:{:?}", specs[i].layout));
    }
    probe.sample(|| {
        let i = n / 2;
        json!({"batch_size": n, "one_block": specs[i], "actual_count_by_construction": actual[i], "content": contents[i]})
    });
    let exp = |i: usize, pos: &BlockPos| -> Vec<ExpDiag> {
        let (op, nn) = parsed[i];
        if op.holds(actual[i], nn) {
            vec![]
        } else {
            vec![ExpDiag::tag("line-count", pos)
                .with_data("/actual", json!(actual[i]))
                .with_data("/op", json!(op.text()))
                .with_data("/expected", json!(nn))]
        }
    };
    let describe = |i: usize| format!("{:?} (content {:?}, {} non-blank lines)", specs[i], contents[i], actual[i]);
    let reduce = |i: usize| serde_json::to_value(LcBatch { specs: vec![specs[i].clone()] }).unwrap();
    super::linerules::check_rendered_batch("C09", FILE, n, &render_sel, &describe, &exp, probe, &reduce)
}

const SPACINGS: &[(&str, &str, &str)] = &[("", "", ""), ("", " ", ""), (" ", "", " "), ("  ", "  ", "")];

pub fn enumerated(batch: usize) -> Vec<LcBatch> {
    let mut specs = vec![];
    for layout in [Layout::Standard, Layout::ContentOnTagLine, Layout::Inline, Layout::SameComment, Layout::Nested] {
        for op in Op::ALL {
            for (a, m, z) in SPACINGS {
                for n in 0..=6u64 {
                    for lines in 0..=7usize {
                        for blanks in [Blanks::None, Blanks::First, Blanks::Last, Blanks::Middle, Blanks::Around] {
                            let s = LcSpec { expr: format!("{a}{}{m}{n}{z}", op.text()), lines, blanks, layout };
                            if normalise(&s) != s {
                                continue; // not expressible in this layout
                            }
                            specs.push(s);
                        }
                    }
                }
            }
        }
    }
    specs.chunks(batch).map(|c| LcBatch { specs: c.to_vec() }).collect()
}

pub fn random_batch() -> BoxedStrategy<LcBatch> {
    let spec = (0usize..5, 0usize..4, prop_oneof![0u64..12, 0u64..400, Just(18446744073709551615u64)], prop_oneof![0usize..12, 0usize..400], 0usize..5, 0usize..5).prop_map(
        |(op, sp, n, lines, bl, lay)| {
            let (a, m, z) = SPACINGS[sp];
            LcSpec {
                expr: format!("{a}{}{m}{n}{z}", Op::ALL[op].text()),
                lines,
                blanks: [Blanks::None, Blanks::First, Blanks::Last, Blanks::Middle, Blanks::Around][bl],
                layout: [Layout::Standard, Layout::ContentOnTagLine, Layout::Inline, Layout::SameComment, Layout::Nested][lay],
            }
        },
    );
    proptest::collection::vec(spec, 1..8).prop_map(|specs| LcBatch { specs }).boxed()
}

pub fn run(run: &mut Run) {
    run.rule = "one rendered file in seven starts with a byte-order mark (and a code line in front of the first block); every rendered file spells `name=value` in one of three ways (`=`, ` = `, ` =`), drawn from its first block. enumerated: the full grid operator(5) x spacing(4) x N(0..6) x written line count(0..7) x blank-line placement(5: none/first/last/middle/around, alternating empty and whitespace-only) x layout(5: own-line tags, content starting on the tag's line, fully inline, both tags in one comment, nested block inside) restricted to expressible combinations; random: large N (incl. 2^64-1) and blocks up to 400 lines. Non-trivial block = count within 1 of N, or blank lines present, or a non-standard layout; distinct by (batch, block).".into();
    run.assumptions = vec!["content lines are JavaScript expression statements `xK;`; counts are cross-checked between construction and the content text".into()];
    run.enumerate("grid", enumerated(400), Some("operator x spacing x N in 0..6 x count in 0..7 x blank placement x layout"), check_batch);
    run.random("large", run.tier.pick(600, 12000), random_batch, check_batch);
}
