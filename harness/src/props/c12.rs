//! C12 — unbalanced block tags are a hard error, never a silent skip.
use super::c03::SrcCase;
use crate::builder::{self, Ev, Place};
use crate::cli::{BwRun, Out, Sandbox};
use crate::engine::{Probe, Run, Verdict};
use crate::langs::{self, SUFFIXES};
use proptest::prelude::*;
use serde::{Deserialize, Serialize};
use serde_json::json;

#[derive(Clone, Debug, Serialize, Deserialize)]
pub struct DamageCase {
    pub src: SrcCase,
    /// which tag (index among the tag events of the balanced list, monotone u16 mapping)
    pub tag: u16,
    /// 0 delete, 1 duplicate, 2 turn into a look-alike
    pub kind: u8,
    /// healthy companion files (0..3), sorted before/after the damaged one
    pub companions: Vec<SrcCase>,
    /// 0 scan with paths, 1 interactive scan, 2 list with paths, 3 diff, 4 diff + list,
    /// 5 diff that only adds (or drops) the damaged file's final newline, 6 the same + list,
    /// 7 diff that only removes a line in front of the damaged file's first line (every tag lies after the last
    /// changed line), 8 the same + list
    pub mode: u8,
}

const LOOKALIKES_START: &[&str] = &["<!block>", "<block/>", "<Block>", "<blok>", "< block>"];
const LOOKALIKES_END: &[&str] = &["</blok>", "</Block>", "<//block>", "</block/>", "<\\block>"];

pub fn damage(events: &[Ev], tag: u16, kind: u8) -> Option<Vec<Ev>> {
    let bal = builder::balance(events);
    let tag_idx: Vec<usize> = bal.iter().enumerate().filter(|(_, e)| matches!(e, Ev::Open { .. } | Ev::Close { .. })).map(|(i, _)| i).collect();
    if tag_idx.is_empty() {
        return None;
    }
    let k = tag_idx[crate::engine::pick_idx(tag, tag_idx.len())];
    let mut out = bal.clone();
    match kind % 3 {
        0 => {
            out.remove(k);
        }
        1 => {
            let mut dup = bal[k].clone();
            if let Ev::Open { place, .. } | Ev::Close { place, .. } = &mut dup {
                *place = Place { form: place.form, ..Default::default() };
            }
            out.insert(k + 1, dup);
        }
        _ => {
            // the tag's comment stays, the tag text becomes a look-alike: model as a noise comment of the same form
            let (form, text) = match &bal[k] {
                Ev::Open { place, .. } => (place.form, 10 + (tag % 8) as u8),
                Ev::Close { place, .. } => (place.form, 16),
                _ => unreachable!(),
            };
            out[k] = Ev::Noise { form, text, indent: 0 };
        }
    }
    let _ = (LOOKALIKES_START, LOOKALIKES_END);
    Some(out)
}

pub fn check(c: &DamageCase, probe: &Probe) -> Verdict {
    let (suffix, lid) = SUFFIXES[c.src.suffix % SUFFIXES.len()];
    let lang = langs::lang(lid);
    let Some(events) = damage(&c.src.events, c.tag, c.kind) else { return Verdict::Unspecified("no tag to damage") };
    let bad = builder::build_raw(lang, &events, c.src.crlf);
    if bad.balanced {
        return Verdict::Unspecified("damage left the tags balanced");
    }
    let healthy_version = builder::build(lang, &c.src.events, c.src.crlf);
    if langs::healthy(lang.id, &bad.text) == Some(false) || langs::healthy(lang.id, &healthy_version.text) == Some(false) {
        return Verdict::Unspecified("generated source is not accepted by the language's own grammar");
    }
    let bad_name = format!("m_damaged_{}", langs::file_name("f", suffix));
    let bad_path = if langs::WHOLE_NAME_SUFFIXES.contains(&suffix) { format!("sub/{}", langs::file_name("f", suffix)) } else { bad_name };
    let mut companions = vec![];
    for (i, comp) in c.companions.iter().take(3).enumerate() {
        let (s, l) = SUFFIXES[comp.suffix % SUFFIXES.len()];
        if langs::WHOLE_NAME_SUFFIXES.contains(&s) {
            continue;
        }
        let b = builder::build(langs::lang(l), &comp.events, comp.crlf);
        if langs::healthy(l, &b.text) == Some(false) {
            continue;
        }
        let prefix = if i % 2 == 0 { "a" } else { "z" };
        companions.push((format!("{prefix}_ok{i}.{s}"), b.text));
    }
    probe.class(["damage:delete", "damage:duplicate", "damage:look-alike"][(c.kind % 3) as usize]);
    probe.class(["mode:scan-paths", "mode:scan-interactive", "mode:list", "mode:diff", "mode:diff-list", "mode:newline-only-diff", "mode:newline-only-diff-list", "mode:first-line-only-diff", "mode:first-line-only-diff-list"][(c.mode % 9) as usize]);
    probe.class(&format!("suffix:{suffix}"));
    if healthy_version.blocks.iter().any(|b| b.depth > 0) || !companions.is_empty() {
        probe.nontrivial();
    }
    let mode = c.mode % 9;
    let run = |damaged: bool| -> Out {
        let sb = if mode >= 3 { Sandbox::new() } else { Sandbox::with_fake_git() };
        let text = if damaged { &bad.text } else { &healthy_version.text };
        if mode >= 3 {
            sb.init_repo();
            if mode >= 5 {
                // modes 5/6: the committed version differs in the final line terminator only (the diff names the
                // file without changing a single character of any line); modes 7/8: it has one more line on top
                let old = if mode >= 7 {
                    format!("removed first line\n{text}")
                } else {
                    match text.strip_suffix("\r\n").or_else(|| text.strip_suffix('\n')) {
                        Some(t) => t.to_string(),
                        None => format!("{text}\n"),
                    }
                };
                sb.write(".gitattributes", b"* -text\n");
                sb.write(&bad_path, old.as_bytes());
            }
            sb.commit_all("base");
        }
        sb.write(&bad_path, text.as_bytes());
        for (n, t) in &companions {
            sb.write(n, t.as_bytes());
        }
        let mut paths: Vec<&str> = companions.iter().map(|(n, _)| n.as_str()).collect();
        paths.push(&bad_path);
        paths.sort();
        probe.child();
        match mode {
            0 => sb.bw(&BwRun::scan(&paths)),
            1 => sb.bw(&BwRun::scan(&[])),
            2 => {
                let mut a = vec!["list"];
                a.extend(paths.iter());
                sb.bw(&BwRun::scan(&a))
            }
            _ => {
                sb.git_ok(&["add", "-A"]);
                let d = sb.git_diff(&["--cached"]);
                let args: Vec<&str> = if matches!(mode, 4 | 6 | 8) { vec!["list"] } else { vec![] };
                sb.bw(&BwRun::diff(&args, d.as_bytes()))
            }
        }
    };
    let out = run(true);
    probe.sample(|| json!({"damaged_file": bad_path, "text": crate::cli::trunc(&bad.text, 600), "damage": c.kind % 3, "mode": mode, "companions": companions.len(), "exit": out.code, "stderr": crate::cli::trunc(&out.stderr, 200)}));
    let show = |what: &str, o: &Out| format!("C12 [{suffix}]: {what}\n--- {bad_path} (tags do not balance) ---\n{}\n--- companions: {:?}; mode {mode} ---\n{}", bad.text, companions.iter().map(|c| &c.0).collect::<Vec<_>>(), o.brief());
    if out.timed_out || out.panicked() {
        return Verdict::Fail(show("crash instead of an error", &out));
    }
    if out.code == Some(0) {
        return Verdict::Fail(show("run succeeded although the file's block tags do not balance", &out));
    }
    if !out.stderr.contains(&bad_path) {
        return Verdict::Fail(show("error does not name the unbalanced file", &out));
    }
    if out.stdout.contains("is_content_modified") {
        return Verdict::Fail(show("a listing was printed for a run that must fail", &out));
    }
    // control: the same tree with the undamaged file must be fine (exit 0: no rules are attached)
    let ctl = run(false);
    if ctl.code != Some(0) || ctl.panicked() {
        return Verdict::Fail(format!("C12 [{suffix}]: HARNESS control run (undamaged tree) is not healthy\n--- {bad_path} ---\n{}\n{}", healthy_version.text, ctl.brief()));
    }
    Verdict::Pass
}

pub fn case_strategy() -> BoxedStrategy<DamageCase> {
    let src = || {
        (0..SUFFIXES.len(), builder::events_strategy(builder::simple_tag_strategy(), 16), proptest::bool::weighted(0.1))
            .prop_map(|(suffix, events, crlf)| SrcCase { suffix, events, crlf, echo: false, no_eol: false, bom: false, nul: false, far: false })
    };
    // make sure there is at least one block: prepend an Open
    let with_block = (src(), builder::simple_tag_strategy(), builder::place_strategy()).prop_map(|(mut s, tag, place)| {
        s.events.insert(0, Ev::Open { tag, place });
        s
    });
    (with_block, any::<u16>(), 0u8..3, proptest::collection::vec(src(), 0..4), 0u8..9)
        .prop_map(|(src, tag, kind, companions, mode)| DamageCase { src, tag, kind, companions, mode })
        .boxed()
}

pub fn run(run: &mut Run) {
    run.rule = "random: a well-nested generated file of any of the 39 suffixes (as in C03, at least one block) with exactly one tag damaged (deleted / duplicated / turned into a look-alike; tag index uniform over all tags, so every nesting position occurs), alone or among 1..3 healthy files of other languages sorted before/after it, in 9 modes (scan with paths, interactive scan, list, new-file diff, diff + list, a diff that only adds or drops the damaged file's final line terminator, the same + list, a diff that only removes a line above the file's first line, the same + list); expected: non-zero exit, error names the file, no listing; control run with the undamaged file exits 0. Non-trivial = the original structure is nested or companions are present.".into();
    run.assumptions = vec!["grammar-rejected sources are discarded".into()];
    run.random("damage", run.tier.pick(2500, 60000), case_strategy, check);
}
