//! C05 — tag syntax: attributes round-trip, look-alikes are ignored.
use super::c03::{Prepared, SrcCase, check_as};
use crate::builder::{self, Ev};
use crate::engine::{Probe, Run, Verdict};
use crate::langs::SUFFIXES;
use proptest::prelude::*;

/// Hosts: `#`, `//`, `/* */`, `<!-- -->`, `[//]: # ()` and a few more of each family.
const HOSTS: &[&str] = &["py", "rs", "js", "html", "md", "c", "xml", "yaml", "sql", "css", "go", "sh"];

fn nontrivial(c: &SrcCase) -> bool {
    // >= 2 attributes with a quoted value containing `>` or the other quote, or a look-alike adjacent to a real tag
    c.events.iter().any(|e| match e {
        Ev::Open { tag, place } => {
            let tricky = tag.attrs.iter().any(|a| match &a.val {
                builder::Val::Single(v) => v.contains('>') || v.contains('"'),
                builder::Val::Double(v) => v.contains('>') || v.contains('\''),
                _ => false,
            });
            (tag.attrs.len() >= 2 && tricky) || (place.pre >= 9 || place.post >= 9)
        }
        _ => false,
    })
}

pub fn check(c: &SrcCase, probe: &Probe) -> Verdict {
    let nt = nontrivial(c);
    let n_attrs: usize = c.events.iter().map(|e| if let Ev::Open { tag, .. } = e { tag.attrs.len() } else { 0 }).sum();
    probe.class(&format!("attributes-per-file:{}", (n_attrs / 4 * 4).min(24)));
    check_as("C05", c, probe, &move |_p: &Prepared| nt)
}

pub fn case_strategy() -> BoxedStrategy<SrcCase> {
    let suffix = (0..HOSTS.len()).prop_map(|i| SUFFIXES.iter().position(|(s, _)| *s == HOSTS[i]).unwrap());
    (suffix, builder::events_strategy(builder::wild_tag_strategy(), 14), proptest::bool::weighted(0.1))
        .prop_map(|(suffix, events, crlf)| SrcCase { suffix, events, crlf, echo: false, no_eol: false, bom: false, nul: false, far: false })
        .boxed()
}

pub fn run(run: &mut Run) {
    run.rule = "random: start tags printed from an attribute AST (0..6 attributes; names over ASCII/Unicode letters, digits, `-`, `_`; bare, unquoted, single- and double-quoted values over printable characters minus the enclosing quote, incl. `>`, `<`, `=`, the other quote, `</block>` and a whole start tag inside a value; duplicates; spaces/tabs/newlines (with `*` decoration) before names, around `=` and before `>`), end tags in 6 spellings, placed in comments of 12 hosts (#, //, /* */, <!-- -->, [//]: # with three title delimiters) with noise and look-alikes (<blockquote>, <block/>, <Block>, <BLOCK …>, < block>, <blocks>, <block-x>, <block name=\"a\"/>, unclosed quotes at the end of a comment) before/after; compared with `list` (exact attribute map, last duplicate wins, valueless -> empty string, line/column of `<`). Non-trivial = a tag with >= 2 attributes one of whose quoted values holds `>` or the other quote, or a look-alike adjacent to a real tag.".into();
    run.assumptions = vec![
        "values lose what their host comment cannot hold (`*/`, `--`, the Markdown title delimiter, backslashes in Markdown titles); the adapted AST is the ground truth".into(),
        "unclosed-quote look-alikes are only emitted as the last text of their own comment".into(),
    ];
    run.random("roundtrip", run.tier.pick(8000, 200000), case_strategy, check);
    if run.tier == crate::engine::Tier::Thorough {
        let seeds: Vec<Vec<u8>> = (0..64u8).map(|i| (0..48u8).map(|k| i.wrapping_mul(53).wrapping_add(k.wrapping_mul(7))).collect()).collect();
        run.fuzz_part("tag_roundtrip", "roundtrip", 250_000, 8, 600, seeds, &|bytes, probe| {
            let case = crate::fuzzdec::decode_src_case(bytes, true);
            (check(&case, probe), serde_json::to_value(&case).unwrap_or_default())
        });
    }
}
