//! C15 — only files in scope are examined: globs, --ignore and diff paths.
use crate::cli::{BwRun, Out, Sandbox};
use crate::engine::{Probe, Run, Verdict, pick_idx};
use crate::report::{parse_diags, parse_listing};
use proptest::prelude::*;
use serde::{Deserialize, Serialize};
use serde_json::json;
use std::collections::BTreeSet;

pub const DIRS: &[&str] = &["", "a", "b", "b/b", "a/b", "src", "src/my lib", "d.ir", ".hid", "src/.cache", "ign", "a/ign", "b/a/b", "deep/er/still", "lib.py", "notes.md", "a/x.py", "src/w.toml", "y.rs", "legacy,v1", "c", "w", "o/i", "node_modules/pkg", "target", "vendor", "build", "dist", "__pycache__", "Ign", "a/IGN"];
pub const FILES: &[&str] = &["x.py", "y.rs", "z.md", "x.js", "m.sh", "name with space.py", "dotted.name.rs", ".hidden.py", "skipme.py", "n.txt", "w.toml", "SkipMe.py", "app.LOG.py"];
pub const GITIGNORE_LINES: &[&str] = &["ign/", "skipme.*", "/a/x.js", "*.log", "d.ir/y.rs", "!a/ign/x.py"];

#[derive(Clone, Debug, Serialize, Deserialize, Hash, PartialEq, Eq)]
pub enum G {
    /// `*.ext`
    Ext(u8),
    /// `dir/**`
    Dir(u8),
    /// `**/name`
    Name(u8),
    /// exact path of the i-th file of the tree
    Exact(u16),
    /// `**/dir/**`: a directory of that name at any depth — one of the names is `root`, the name of the directory
    /// the generated repository itself lives in (nothing above the repository root takes part in matching)
    Deep(u8),
    /// `{p1,p2}`: an alternation of two exact paths and nothing else (no wildcard anywhere in the pattern)
    #[serde(alias = "Brace")]
    Alt(u16, u16),
}

const DEEP: &[&str] = &["root", "src", "b", "ign", "build", "s0"];

#[derive(Clone, Debug, Serialize, Deserialize, Hash, PartialEq, Eq)]
pub struct ScopeCase {
    /// (dir index, file index)
    pub tree: Vec<(u8, u8)>,
    pub gitignore: Vec<u8>,
    pub nested_gitignore: bool,
    pub globs: Vec<G>,
    pub ignores: Vec<G>,
    /// indices (monotone u16) of files named in the diff; empty + interactive => no diff
    pub diff_files: Vec<u16>,
    /// order and spelling of the arguments: 0 globs then `--ignore g` pairs, 1 `--ignore g` pairs then globs,
    /// 2 `--ignore=g` forms in front of everything (also in front of `list`), 3 interleaved;
    /// bit 4 = `.git/info/exclude`, bit 8 = user-wide ignore file, bit 16 = one in-scope file is larger than 1 MiB
    #[serde(default)]
    pub arg_order: u8,
    pub interactive: bool,
    /// directory index to start from (mapped onto existing directories)
    pub cwd: u8,
    /// bit i set: the i-th diff-named file was renamed (its old state lives under another path; `git diff -M`)
    #[serde(default)]
    pub renamed: u8,
    /// symbolic links to files of the tree: (directory index, target file index)
    #[serde(default)]
    pub links: Vec<(u8, u16)>,
}

#[derive(Clone, Copy, Debug, PartialEq, Eq)]
pub enum T {
    Yes,
    No,
    Unspec,
}

impl T {
    fn and(self, o: T) -> T {
        match (self, o) {
            (T::No, _) | (_, T::No) => T::No,
            (T::Yes, T::Yes) => T::Yes,
            _ => T::Unspec,
        }
    }
    fn or(self, o: T) -> T {
        match (self, o) {
            (T::Yes, _) | (_, T::Yes) => T::Yes,
            (T::No, T::No) => T::No,
            _ => T::Unspec,
        }
    }
    fn not(self) -> T {
        match self {
            T::Yes => T::No,
            T::No => T::Yes,
            T::Unspec => T::Unspec,
        }
    }
    fn from(b: bool) -> T {
        if b { T::Yes } else { T::No }
    }
}

const EXTS: &[&str] = &["py", "rs", "md", "js", "sh"];

pub fn glob_text(g: &G, paths: &[String]) -> String {
    match g {
        G::Ext(i) => format!("*.{}", EXTS[*i as usize % EXTS.len()]),
        G::Dir(i) => {
            let d = DIRS[1 + *i as usize % (DIRS.len() - 1)];
            format!("{d}/**")
        }
        G::Name(i) => format!("**/{}", FILES[*i as usize % FILES.len()]),
        G::Deep(i) => format!("**/{}/**", DEEP[*i as usize % DEEP.len()]),
        G::Exact(i) => {
            if paths.is_empty() {
                "nothing.py".into()
            } else {
                paths[pick_idx(*i, paths.len())].clone()
            }
        }
        G::Alt(i, j) => {
            let (a, b) = alt_paths(*i, *j, paths);
            format!("{{{a},{b}}}")
        }
    }
}

/// The two alternatives of `G::Alt`: files of the tree whose paths hold none of the characters that mean
/// something inside a brace group (a tree without such a pair gets two names that match nothing).
fn alt_paths(i: u16, j: u16, paths: &[String]) -> (String, String) {
    let plain: Vec<&String> = paths.iter().filter(|p| !p.contains(|c: char| ",{}[]*?\\!".contains(c))).collect();
    if plain.is_empty() {
        return ("nothing.py".into(), "nothing_else.py".into());
    }
    (plain[pick_idx(i, plain.len())].clone(), plain[pick_idx(j, plain.len())].clone())
}

/// Harness-side matcher for the four documented glob forms, against root-relative paths.
pub fn glob_match(g: &G, path: &str, paths: &[String]) -> T {
    let base = path.rsplit('/').next().unwrap();
    match g {
        G::Ext(i) => {
            let ext = EXTS[*i as usize % EXTS.len()];
            if !base.ends_with(&format!(".{ext}")) {
                T::No
            } else if path.contains('/') {
                T::Unspec // `*.ext` on a nested file: unspecified (observed: it matches)
            } else {
                T::Yes
            }
        }
        G::Dir(i) => {
            let d = DIRS[1 + *i as usize % (DIRS.len() - 1)];
            T::from(path.starts_with(&format!("{d}/")))
        }
        G::Name(i) => T::from(base == FILES[*i as usize % FILES.len()]),
        G::Deep(i) => {
            let d = DEEP[*i as usize % DEEP.len()];
            let comps: Vec<&str> = path.split('/').collect();
            T::from(comps[..comps.len() - 1].contains(&d))
        }
        G::Exact(_) => T::from(path == glob_text(g, paths)),
        G::Alt(i, j) => {
            let (a, b) = alt_paths(*i, *j, paths);
            T::from(path == a || path == b)
        }
    }
}

fn any_match(gs: &[G], path: &str, paths: &[String]) -> T {
    gs.iter().fold(T::No, |acc, g| acc.or(glob_match(g, path, paths)))
}

fn block_name(path: &str) -> String {
    format!("n_{}", path.replace(|c: char| !c.is_ascii_alphanumeric(), "_"))
}

fn content(path: &str, healthy: bool, touched: bool) -> String {
    let base = path.rsplit('/').next().unwrap();
    let ext = base.rsplit('.').next().unwrap();
    let name = block_name(path);
    let (open, close, code) = match ext {
        "py" | "sh" | "toml" => ("# ", "", "k = 1"),
        "rs" => ("// ", "", "const K: u8 = 1;"),
        "js" => ("// ", "", "let k = 1;"),
        "md" => ("[//]: # (", ")", "text"),
        _ => ("# ", "", "k = 1"),
    };
    let code = if ext == "sh" { "k=1" } else { code };
    let extra = if touched { format!("{}\n", if ext == "md" { "\nmore text\n".to_string() } else { code.replace('1', "2").replace("k", "k2").replace('K', "K2") }) } else { String::new() };
    if healthy {
        format!("{open}<block name=\"{name}\" line-count=\"<0\">{close}\n\n{code}\n{extra}\n{open}</block>{close}\n")
    } else {
        // tripwire: a start tag that is never closed — examining this file makes the run fail
        format!("{open}<block name=\"{name}\">{close}\n\n{code}\n{extra}")
    }
}

pub fn check(c: &ScopeCase, probe: &Probe) -> Verdict {
    // tree
    let mut paths: Vec<String> = c
        .tree
        .iter()
        .map(|(d, f)| {
            let d = DIRS[*d as usize % DIRS.len()];
            let f = FILES[*f as usize % FILES.len()];
            if d.is_empty() { f.to_string() } else { format!("{d}/{f}") }
        })
        .collect();
    paths.sort();
    paths.dedup();
    // a path cannot be a file and a directory at once (directories named like files are part of the domain)
    let all = paths.clone();
    paths.retain(|p| !all.iter().any(|q| q.starts_with(&format!("{p}/"))));
    if paths.is_empty() {
        return Verdict::Unspecified("empty tree");
    }
    let diff_set: BTreeSet<String> = if c.interactive { BTreeSet::new() } else { c.diff_files.iter().map(|i| paths[pick_idx(*i, paths.len())].clone()).collect() };
    let sb = Sandbox::new();
    sb.init_repo();
    let mut gi: Vec<&str> = c.gitignore.iter().map(|i| GITIGNORE_LINES[*i as usize % GITIGNORE_LINES.len()]).collect();
    gi.dedup();
    if !gi.is_empty() {
        sb.write(".gitignore", (gi.join("\n") + "\n").as_bytes());
    }
    if c.nested_gitignore {
        sb.write("src/.gitignore", b"x.js\nmy lib/\n");
    }
    // git's two other ignore sources: the repository's own exclude file and the user-wide one (which git and
    // blockwatch both find through XDG_CONFIG_HOME); `git check-ignore` below is the authority on all of them
    if c.arg_order & 4 != 0 {
        let _ = std::fs::create_dir_all(sb.root.join(".git/info"));
        let _ = std::fs::write(sb.root.join(".git/info/exclude"), "m.sh\nsrc/w.toml/\n");
        probe.class("with .git/info/exclude");
    }
    if c.arg_order & 8 != 0 {
        let _ = std::fs::create_dir_all(sb.home.join("xdg/git"));
        let _ = std::fs::write(sb.home.join("xdg/git/ignore"), "z.md\ndist/\n");
        probe.class("with a user-wide git ignore file");
    }
    // old state: every file healthy (so that git tracks it), committed with -f
    let renamed: Vec<(String, String)> = diff_set
        .iter()
        .enumerate()
        .filter(|(i, _)| c.renamed & (1 << i) != 0)
        .map(|(i, p)| (p.clone(), format!("zold/{i}_{}{}", if i % 2 == 1 { "señal_" } else { "" }, p.rsplit('/').next().unwrap().trim_start_matches('.'))))
        .collect();
    for p in &paths {
        match renamed.iter().find(|(n, _)| n == p) {
            // the content names the block after the *new* path so that old and new states stay similar
            Some((_, old)) => sb.write(old, content(p, true, false).as_bytes()),
            None => sb.write(p, content(p, true, false).as_bytes()),
        }
    }
    sb.git_ok(&["add", "-A", "-f"]);
    sb.git_ok(&["commit", "-q", "-m", "old"]);
    for (_, old) in &renamed {
        sb.remove(old);
    }

    let dirs: Vec<String> = {
        let mut d: BTreeSet<String> = BTreeSet::new();
        d.insert(String::new());
        for p in &paths {
            let mut parts: Vec<&str> = p.split('/').collect();
            parts.pop();
            for k in 1..=parts.len() {
                d.insert(parts[..k].join("/"));
            }
        }
        d.into_iter().collect()
    };
    let cwd = dirs[c.cwd as usize % dirs.len()].clone();
    // reference scope
    let global_ignore_on = c.arg_order & 8 != 0;
    let k8_files: std::cell::RefCell<Vec<String>> = std::cell::RefCell::new(vec![]);
    let walkable = |p: &str| -> T {
        let hidden = p.split('/').any(|c| c.starts_with('.'));
        if hidden {
            return T::No;
        }
        probe.child();
        let o = sb.git(&["check-ignore", "--no-index", "-q", p]);
        if o.code != Some(0) {
            return T::Yes;
        }
        // K8: started from a sub-directory, the user-wide ignore file is matched relative to that directory
        // (the `ignore` crate roots its global matcher at the current directory), so a file git ignores ONLY
        // through that file may or may not be examined
        if global_ignore_on && !cwd.is_empty() {
            probe.child();
            let w = sb.git(&["-c", "core.excludesFile=/dev/null", "check-ignore", "--no-index", "-q", p]);
            if w.code != Some(0) {
                k8_files.borrow_mut().push(p.to_string());
                return T::Unspec;
            }
        }
        T::No
    };
    let known_suffix = |p: &str| !p.ends_with(".txt");
    let mut status: Vec<(String, T)> = vec![];
    for p in &paths {
        let pos = if c.globs.is_empty() { T::from(c.interactive) } else { any_match(&c.globs, p, &paths) };
        let scan = walkable(p).and(pos);
        let cand = scan.or(T::from(diff_set.contains(p)));
        let fin = cand.and(any_match(&c.ignores, p, &paths).not());
        status.push((p.clone(), fin));
    }
    // symbolic links to (healthy) files: a link is a file entry of its own, in or out of scope by its own path
    let mut link_paths: Vec<(String, String)> = vec![];
    for (k, (d, t)) in c.links.iter().enumerate() {
        let (target, tstatus) = status[pick_idx(*t, status.len())].clone();
        if tstatus == T::No || !known_suffix(&target) || diff_set.contains(&target) {
            continue; // the target would become a tripwire (or change): its content must stay healthy for the link
        }
        let ext = target.rsplit('.').next().unwrap().to_string();
        let dir = DIRS[*d as usize % DIRS.len()];
        let lp = if dir.is_empty() { format!("ln{k}.{ext}") } else { format!("{dir}/ln{k}.{ext}") };
        if paths.iter().any(|p| p == &lp || p.starts_with(&format!("{lp}/")) || lp.starts_with(&format!("{p}/"))) || link_paths.iter().any(|(l, _)| l == &lp) {
            continue;
        }
        link_paths.push((lp, target));
    }
    for (lp, target) in &link_paths {
        let pos = if c.globs.is_empty() { T::from(c.interactive) } else { any_match(&c.globs, lp, &paths) };
        let scan = walkable(lp).and(pos);
        let fin = scan.and(any_match(&c.ignores, lp, &paths).not());
        // an out-of-scope link cannot be a tripwire (its content is its target's): it is only checked through the key sets
        let _ = target;
        status.push((lp.clone(), fin));
    }
    // new state: in-scope and unspecified files healthy (diff-named ones touched inside their block),
    // out-of-scope files become tripwires
    for (lp, target) in &link_paths {
        let abs = sb.root.join(target);
        let l = sb.root.join(lp);
        if let Some(parent) = l.parent() {
            let _ = std::fs::create_dir_all(parent);
        }
        let _ = std::os::unix::fs::symlink(&abs, &l);
    }
    if !link_paths.is_empty() {
        probe.class("tree-with-symlinks-to-files");
        // and one symbolic link to a DIRECTORY whose own name looks like a source file: it is not a file, so it
        // is never examined (nor followed), whatever the globs say
        let _ = std::fs::create_dir_all(sb.root.join(".hid_linktarget"));
        let _ = std::os::unix::fs::symlink(sb.root.join(".hid_linktarget"), sb.root.join("zz_dirlink.py"));
        let _ = std::fs::create_dir_all(sb.root.join("src"));
        let _ = std::os::unix::fs::symlink(sb.root.join(".hid_linktarget"), sb.root.join("src/chart.js"));
    }
    let mut big_left = c.arg_order & 16 != 0;
    for (p, st) in &status {
        if link_paths.iter().any(|(l, _)| l == p) {
            continue;
        }
        let touched = diff_set.contains(p);
        let healthy = *st != T::No || !known_suffix(p);
        if big_left && *st == T::Yes && known_suffix(p) && !touched {
            // one in-scope file reached through the walk is large: 1.3 MB of text behind its block
            big_left = false;
            probe.class("tree-with-a-file-above-1MiB");
            let mut txt = content(p, true, false);
            let line = if p.ends_with(".md") { "filler text of a long generated document\n\n" } else { "\n" };
            txt.push_str(&line.repeat(1_300_000 / line.len() + 1));
            sb.write(p, txt.as_bytes());
            continue;
        }
        let txt = if known_suffix(p) { content(p, healthy, touched) } else { format!("# <block name=\"txt\">\nunknown suffix garbage </block> </block>\n{}", if touched { "more\n" } else { "" }) };
        sb.write(p, txt.as_bytes());
    }
    // the diff names exactly diff_set (files whose content changed and that are in diff_set) — tripwire rewrites
    // of other files must not leak into the diff: restrict the diff to diff_set paths
    let diff = if diff_set.is_empty() {
        String::new()
    } else {
        sb.git_ok(&["add", "-A", "-f"]);
        let mut args = vec!["--cached", "-M", "-U1", "--"];
        let ds: Vec<&str> = diff_set.iter().map(String::as_str).collect();
        args.extend(ds.iter());
        args.extend(renamed.iter().map(|(_, o)| o.as_str()));
        sb.git_diff(&args)
    };
    if !renamed.is_empty() {
        probe.class("diff-with-renamed-file");
    }
    // `pre` goes in front of the sub-command, `args` behind it
    let mut pre: Vec<String> = vec![];
    let mut args: Vec<String> = vec![];
    let globs: Vec<String> = c.globs.iter().map(|g| glob_text(g, &paths)).collect();
    let ignores: Vec<String> = c.ignores.iter().map(|g| glob_text(g, &paths)).collect();
    match c.arg_order % 4 {
        0 => {
            args.extend(globs.iter().cloned());
            for g in &ignores {
                args.extend(["--ignore".to_string(), g.clone()]);
            }
        }
        1 => {
            for g in &ignores {
                args.extend(["--ignore".to_string(), g.clone()]);
            }
            args.extend(globs.iter().cloned());
        }
        2 => {
            for g in &ignores {
                pre.push(format!("--ignore={g}"));
            }
            args.extend(globs.iter().cloned());
        }
        _ => {
            let n = globs.len().max(ignores.len());
            for k in 0..n {
                if let Some(g) = ignores.get(k) {
                    args.extend(["--ignore".to_string(), g.clone()]);
                }
                if let Some(g) = globs.get(k) {
                    args.push(g.clone());
                }
            }
        }
    }
    probe.class(&format!("argument-order:{}", c.arg_order % 4));
    let want_in: BTreeSet<&str> = status.iter().filter(|(p, s)| *s == T::Yes && known_suffix(p)).map(|(p, _)| p.as_str()).collect();
    let unspec: BTreeSet<&str> = status.iter().filter(|(_, s)| *s == T::Unspec).map(|(p, _)| p.as_str()).collect();
    let has_b = paths.iter().any(|p| p.starts_with("b/"));
    let diff_outside_glob = !c.globs.is_empty() && diff_set.iter().any(|p| any_match(&c.globs, p, &paths) == T::No);
    let ignore_hits_diff = diff_set.iter().any(|p| any_match(&c.ignores, p, &paths) == T::Yes);
    if (diff_outside_glob || ignore_hits_diff) && has_b || (has_b && diff_set.iter().any(|p| p.starts_with("b/"))) {
        probe.nontrivial();
    }
    probe.class(if c.interactive { "mode:interactive" } else if diff_set.is_empty() { "mode:empty-diff" } else { "mode:diff" });
    probe.class(if cwd.is_empty() { "cwd:root" } else { "cwd:subdirectory" });
    probe.class_n("files:in-scope", want_in.len() as u64);
    probe.class_n("files:out-of-scope(tripwire)", status.iter().filter(|(_, s)| *s == T::No).count() as u64);
    probe.class_n("files:unspecified", unspec.len() as u64);
    let show = |what: &str, o: &Out| {
        format!(
            "C15: {what}\nargs: {pre:?} [list] {args:?}  cwd: {cwd:?}  interactive: {}\n.gitignore: {gi:?} nested: {}\nfiles (path -> expected): {:?}\ndiff names: {diff_set:?}\n--- diff ---\n{}\n--- observed ---\n{}",
            c.interactive,
            c.nested_gitignore,
            status,
            crate::cli::trunc(&diff, 1500),
            o.brief()
        )
    };
    let mut k8_seen: Option<String> = None;
    for sub in ["list", "validate"] {
        // the subcommand goes first (`blockwatch list <globs>`), as documented
        let mut a: Vec<&str> = pre.iter().map(String::as_str).collect();
        if sub == "list" {
            a.push("list");
        }
        a.extend(args.iter().map(String::as_str));
        let mut run = if c.interactive { BwRun::scan(&a) } else { BwRun::diff(&a, diff.as_bytes()) };
        run.cwd = cwd.clone();
        probe.child();
        let o = sb.bw(&run);
        if o.timed_out || o.panicked() {
            return Verdict::Fail(show("crash", &o));
        }
        let keys: BTreeSet<String> = if sub == "list" {
            if o.code != Some(0) {
                return Verdict::Fail(show("`list` failed: a file outside the scope was examined (tripwire) or a file in scope could not be read", &o));
            }
            match parse_listing(&o.stdout) {
                Ok(l) => l.into_iter().map(|b| b.file).collect(),
                Err(e) => return Verdict::Fail(show(&e, &o)),
            }
        } else {
            match parse_diags(&o.stderr) {
                Ok(d) => d.into_iter().map(|d| d.file).collect(),
                Err(e) => return Verdict::Fail(show(&format!("validation run failed: a file outside the scope was examined (tripwire) or a file in scope could not be read: {e}"), &o)),
            }
        };
        if k8_files.borrow().iter().any(|p| keys.contains(p)) {
            k8_seen = Some(format!("{sub}: {:?} examined although git ignores it through the user-wide ignore file (started from {cwd:?})", k8_files.borrow().iter().filter(|p| keys.contains(*p)).collect::<Vec<_>>()));
        }
        let missing: Vec<&&str> = want_in.iter().filter(|p| !keys.contains(**p)).collect();
        let extra: Vec<&String> = keys.iter().filter(|k| !want_in.contains(k.as_str()) && !unspec.contains(k.as_str())).collect();
        if !missing.is_empty() || !extra.is_empty() {
            return Verdict::Fail(show(&format!("{sub}: files examined differ from the reference scope. in scope but absent: {missing:?}; examined but out of scope: {extra:?}"), &o));
        }
    }
    probe.sample(|| json!({"args": args, "cwd": cwd, "interactive": c.interactive, "gitignore": gi, "files": status.iter().map(|(p, s)| format!("{p} -> {s:?}")).collect::<Vec<_>>(), "diff_names": diff_set}));
    if let Some(what) = k8_seen {
        probe.class("known:K8");
        if crate::known::listed("K8") {
            return Verdict::Known("K8");
        }
        return Verdict::Fail(format!("C15: {what}"));
    }
    Verdict::Pass
}

pub fn case_strategy() -> BoxedStrategy<ScopeCase> {
    let g = || prop_oneof![2 => (0u8..5).prop_map(G::Ext), 2 => (0u8..30).prop_map(G::Dir), 2 => (0u8..13).prop_map(G::Name), 2 => any::<u16>().prop_map(G::Exact), 1 => (0u8..6).prop_map(G::Deep), 1 => (any::<u16>(), any::<u16>()).prop_map(|(i, j)| G::Alt(i, j))];
    (
        proptest::collection::vec((prop_oneof![2 => Just(0u8), 2 => Just(2u8), 1 => Just(3u8), 6 => 0u8..31], 0u8..13), 2..14),
        proptest::collection::vec(0u8..6, 0..4),
        proptest::bool::weighted(0.2),
        proptest::collection::vec(g(), 0..4),
        proptest::collection::vec(g(), 0..4),
        (proptest::collection::vec(any::<u16>(), 0..4), prop_oneof![7 => 0u8..16, 1 => 16u8..32]),
        proptest::bool::weighted(0.3),
        any::<u8>(),
        prop_oneof![2 => Just(0u8), 1 => 0u8..8],
        prop_oneof![2 => Just(vec![]), 1 => proptest::collection::vec((0u8..19, any::<u16>()), 1..3)],
    )
        .prop_map(|(tree, gitignore, nested_gitignore, globs, ignores, (diff_files, arg_order), interactive, cwd, renamed, links)| ScopeCase { tree, gitignore, nested_gitignore, globs, ignores, diff_files, arg_order, interactive, cwd, renamed, links })
        .boxed()
}

pub fn run(run: &mut Run) {
    run.rule = "random: a tree of 2..13 files over 31 directories (incl. two that differ from an ignore pattern in letter case only: `Ign`, `a/IGN`; conventionally skipped names: `node_modules`, `target`, `vendor`, `build`, `dist`, `__pycache__`; a name with a comma, top-level `c`, `w`, `o/i` (git's mnemonic diff prefixes), `a`, `b`, `b/b`, `b/a/b`, a name with a space, a dotted directory, hidden directories, git-ignored directories, directories named like files: `lib.py`, `notes.md`, `a/x.py`, `y.rs`) x 13 file names (5 languages, names with spaces/dots, hidden, git-ignored, unknown suffix, two that differ from an ignore pattern in letter case only), a generated .gitignore (+ optional nested one, + optional `.git/info/exclude`, + optional user-wide ignore file under XDG_CONFIG_HOME), in a third of the cases 1..2 symbolic links to healthy files of the tree plus two symbolic links to a directory whose own names look like source files (`zz_dirlink.py`, `src/chart.js`), 0..3 positional and 0..3 --ignore globs of the documented forms in four argument orders / spellings (globs first, --ignore first, `--ignore=g` in front of the sub-command, interleaved) (`*.ext`, `dir/**`, `**/name`, exact path, `**/dir/**` — one of these names the directory the repository itself lives in —, and `{path1,path2}`, an alternation of two exact paths with no wildcard anywhere in the pattern), a real `git diff --cached -M` naming 0..3 of the files (each touched inside its block; some of them renamed, so that the `---` and `+++` paths differ — every second old name holds non-ASCII letters, which git prints C-quoted: `--- \"a/zold/1_se\\303\\261al_x.py\"`) or interactive mode, started from the root or any sub-directory. Every file holds one uniquely named violating block (in one case of eight, one in-scope file reached through the walk carries 1.3 MB of text behind it); files outside the reference scope are rewritten as tripwires (unclosed start tag), so examining one fails the run. Reference scope = ((not hidden and not ignored by `git check-ignore --no-index`) and matches a positional glob — everything when interactive without globs) or named in the diff, minus --ignore matches; `*.ext` on nested paths is unspecified. Compared with the key sets of `list` and of the diagnostics. Non-trivial = a top-level directory `b` together with a diff-named file outside every glob / hit by an ignore glob / under `b/`.".into();
    run.assumptions = vec![
        "git's own ignore matcher is the authority on .gitignore semantics; globs are matched by a harness-side matcher for the stated forms only".into(),
        "default a/ b/ diff prefixes (no --no-prefix), paths free of characters git quotes".into(),
    ];
    run.shrink_iters = 300;
    run.sentinel("K8", "scope", check);
    run.random("scope", run.tier.pick(1000, 25000), case_strategy, check);
}
