//! C06 — keep-sorted reports a block iff its keys are out of order.
use crate::engine::{Probe, Run, Verdict};
use crate::models::{self, KsOutcome};
use crate::rules::{ExpDiag, Host, RuleBlock};
use proptest::prelude::*;
use serde::{Deserialize, Serialize};
use serde_json::json;

#[derive(Clone, Debug, PartialEq, Eq, Hash, Serialize, Deserialize)]
pub struct KsSpec {
    /// keep-sorted attribute value (None = bare attribute)
    pub dir: Option<String>,
    pub pat: Option<String>,
    /// keep-sorted-format value as written
    pub format: Option<String>,
    pub lines: Vec<String>,
    pub indent: usize,
}

#[derive(Clone, Debug, Serialize, Deserialize)]
pub struct KsBatch {
    pub host: Host,
    pub specs: Vec<KsSpec>,
}

impl KsSpec {
    pub fn to_block(&self, i: usize) -> RuleBlock {
        let mut attrs = vec![("name".to_string(), Some(format!("b{i}"))), ("keep-sorted".to_string(), self.dir.clone())];
        if let Some(p) = &self.pat {
            attrs.push(("keep-sorted-pattern".into(), Some(p.clone())));
        }
        if let Some(f) = &self.format {
            attrs.push(("keep-sorted-format".into(), Some(f.clone())));
        }
        RuleBlock { attrs, lines: self.lines.clone(), indent: self.indent }
    }
    pub fn numeric(&self) -> bool {
        self.format.as_deref().map(|f| f.trim().eq_ignore_ascii_case("numeric")).unwrap_or(false)
    }
    pub fn model(&self) -> KsOutcome {
        let dir = models::dir_of(self.dir.as_deref().unwrap_or("")).expect("generator emits valid directions only");
        let pat = self.pat.as_deref().map(|p| models::key_pat(p).expect("pattern from the family"));
        // the content starts right after the start-tag comment: its first line is the (empty) rest of the tag's
        // line, which is a key when the pattern can match the empty string
        let mut lines: Vec<&str> = vec![""];
        lines.extend(self.lines.iter().map(String::as_str));
        match models::keep_sorted(&lines, dir, pat, self.numeric()) {
            KsOutcome::OutOfOrder(i, sp) => KsOutcome::OutOfOrder(i - 1, sp), // index into the written lines
            o => o,
        }
    }
}

pub fn check_batch(b: &KsBatch, probe: &Probe) -> Verdict {
    let blocks: Vec<RuleBlock> = b.specs.iter().enumerate().map(|(i, s)| s.to_block(i)).collect();
    let outcomes: Vec<KsOutcome> = b.specs.iter().map(KsSpec::model).collect();
    if outcomes.iter().any(|o| *o == KsOutcome::NonNumeric) {
        return Verdict::Unspecified("numeric format with a non-numeric key belongs to C13");
    }
    probe.evals(b.specs.len() as u64 - 1);
    for (s, o) in b.specs.iter().zip(&outcomes) {
        let pat = s.pat.as_deref().and_then(models::key_pat);
        let keys: Vec<&str> = s
            .lines
            .iter()
            .filter_map(|l| match pat {
                None => models::trimmed_span(l).map(|(a, z)| &l[a..z]),
                Some(p) => (p.extract)(l).map(|(a, z)| &l[a..z]),
            })
            .collect();
        let skipped = keys.len() < s.lines.len();
        let related = keys.windows(2).any(|w| w[0] == w[1] || w[0].starts_with(w[1]) || w[1].starts_with(w[0]));
        if keys.len() >= 2 && (related || skipped) {
            probe.nontrivial_sub(s);
        }
        probe.class(match o {
            KsOutcome::Sorted => "in-order",
            KsOutcome::OutOfOrder(..) => "out-of-order",
            KsOutcome::NonNumeric => "non-numeric",
        });
    }
    probe.sample(|| {
        let s = &b.specs[b.specs.len() / 2];
        json!({"host": format!("{:?}", b.host), "batch_size": b.specs.len(), "one_block": s, "model": format!("{:?}", s.model())})
    });
    let exp = |i: usize, pos: &crate::rules::BlockPos| -> Vec<ExpDiag> {
        match &outcomes[i] {
            KsOutcome::OutOfOrder(idx, span) => vec![ExpDiag::key("keep-sorted", pos, *idx, *span)],
            _ => vec![],
        }
    };
    let reduce = |i: usize| serde_json::to_value(KsBatch { host: b.host, specs: vec![b.specs[i].clone()] }).unwrap();
    super::linerules::check_rule_batch("C06", b.host, &blocks, &exp, probe, &reduce)
}

/// All sequences of 0..=max_len over `alphabet`, shortest first.
pub fn sequences(alphabet: &[&str], max_len: usize) -> Vec<Vec<String>> {
    let mut out: Vec<Vec<String>> = vec![vec![]];
    let mut frontier: Vec<Vec<String>> = vec![vec![]];
    for _ in 0..max_len {
        let mut next = Vec::with_capacity(frontier.len() * alphabet.len());
        for s in &frontier {
            for a in alphabet {
                let mut t = s.clone();
                t.push(a.to_string());
                next.push(t);
            }
        }
        out.extend(next.iter().cloned());
        frontier = next;
    }
    out
}

const LEX: &[&str] = &["a", "b", "ab", "  a", "b  ", "", "   ", "B", "é", "\u{a0}b\u{3000}", "\u{2003}"];
const NUM: &[&str] = &["2", "10", "9.5", "-3", " 2", "", "2.0", "\u{3000}10\u{a0}", "007"];
const IDS: &[&str] = &["id:1", "x id:10 y", "id:9", "  id:10", "nomatch", "", "id:x id:2", "id:007"];
const KS: &[&str] = &["ka", "kb", "kab", " ka", "kB", "k", "ka b"];
const PINS: &[&str] = &["p:b", "a", "p:a", "c", "", "p:", " a", "p:c", "b"];
const TRAIL: &[&str] = &["a 2", "b 10", "c 9", "d 10", "", "x", "  e 2"];
const KJ: &[&str] = &["k 7", "j 7", "k 10", "j 2", "x", "", "  k 3  "];
// (`-0`, `0`, `0.0` and `-0.0` are one and the same number: equal neighbours are in order)
const TINY: &[&str] = &["0.0000000000000003", "0.0000000000000001", "1", "1.0000000000000002", "0", "-0.0000000000000002", "-0", "-0.0"];
const DIRS: &[Option<&str>] = &[None, Some(""), Some("asc"), Some("ASC"), Some("desc"), Some("Desc")];

pub fn enumerated(max_len: usize, batch: usize) -> Vec<KsBatch> {
    // (pattern, format, alphabet)
    let configs: Vec<(Option<&str>, Option<&str>, &[&str])> = vec![
        (None, None, LEX),
        (None, Some("numeric"), NUM),
        (None, Some("Numeric"), NUM),
        (Some("id:(?P<value>[0-9]+)"), None, IDS),
        (Some("id:(?P<value>[0-9]+)"), Some("numeric"), IDS),
        (Some("id:[0-9]+"), None, IDS),
        (Some("^k(?P<value>[a-z]+)"), Some("lexicographic"), KS),
        // patterns that can match the empty string: a matching line with an EMPTY key is still a key
        (Some("^k(?P<value>[a-z]*)"), None, KS),
        (Some("^[a-z]*"), None, LEX),
        // `(?<value>…)`: the other spelling of the named group
        (Some("id:(?<value>[0-9]+)"), Some("numeric"), IDS),
        // a `value` group that only takes part in one branch of an alternation: whole match otherwise
        (Some("^p:(?P<value>[a-z]+)$|^[a-z]+$"), None, PINS),
        // a pattern anchored at the line end (CRLF batches: the terminator is not part of the line)
        (Some("[0-9]+$"), Some("numeric"), TRAIL),
        // an ordinary capturing group in front of the `value` group
        (Some("(k|j) (?P<value>[0-9]+)"), Some("numeric"), KJ),
        // numbers one unit in the last place apart, or below every plausible tolerance: still strictly ordered
        (None, Some("numeric"), TINY),
    ];
    let mut specs = vec![];
    for len_cap in 0..=max_len {
        for (pat, fmt, alpha) in &configs {
            for seq in sequences(alpha, len_cap).into_iter().filter(|s| s.len() == len_cap) {
                for d in DIRS {
                    specs.push(KsSpec {
                        dir: d.map(String::from),
                        pat: pat.map(String::from),
                        format: fmt.map(String::from),
                        lines: seq.clone(),
                        indent: 0,
                    });
                }
            }
        }
    }
    specs.chunks(batch).enumerate().map(|(k, c)| KsBatch { host: if k % 3 == 2 { Host::ShCrlf } else { Host::Sh }, specs: c.to_vec() }).collect()
}

fn word() -> BoxedStrategy<String> {
    proptest::string::string_regex("[a-cA-Céжß名z0-9_]{1,6}").unwrap().boxed()
}

fn long_spec() -> BoxedStrategy<KsSpec> {
    let dir = (0..DIRS.len()).prop_map(|i| DIRS[i].map(String::from));
    let plain = (dir.clone(), proptest::collection::vec((word(), 0usize..4, 0usize..3), 6..120), 0u8..4, any::<u64>(), 0usize..3, any::<bool>())
        .prop_map(|(dir, words, perturb, salt, indent, nested)| {
            let desc = models::dir_of(dir.as_deref().unwrap_or("")) == Some(models::Dir::Desc);
            let mut ws = words;
            ws.sort_by(|a, b| a.0.chars().cmp(b.0.chars()));
            if desc {
                ws.reverse();
            }
            let n = ws.len();
            let mut s = salt;
            for _ in 0..perturb {
                let i = (s % n as u64) as usize;
                s = s.rotate_left(17).wrapping_mul(0x9E3779B97F4A7C15);
                let j = (s % n as u64) as usize;
                s = s.rotate_left(17).wrapping_mul(0x9E3779B97F4A7C15);
                ws.swap(i, j);
            }
            let mut lines: Vec<String> = ws.into_iter().map(|(w, l, t)| format!("{}{}{}", " ".repeat(l), w, " ".repeat(t))).collect();
            if nested && lines.len() > 4 {
                // a nested block whose tag lines are ordinary keys of the outer block
                let a = lines.len() / 3;
                let z = 2 * lines.len() / 3;
                lines.insert(z, "# </block>".into());
                lines.insert(a, "# <block name=\"inner\">".into());
            }
            if s % 5 == 0 {
                lines.insert(lines.len() / 2, String::new());
            }
            KsSpec { dir, pat: None, format: None, lines, indent }
        });
    let numeric = (dir, proptest::collection::vec((-500i32..500, 0u8..4, any::<bool>()), 6..80), 0u8..3, any::<u64>(), any::<bool>()).prop_map(
        |(dir, nums, perturb, salt, with_pat)| {
            let desc = models::dir_of(dir.as_deref().unwrap_or("")) == Some(models::Dir::Desc);
            let mut ns = nums;
            ns.sort_by_key(|n| n.0);
            if desc {
                ns.reverse();
            }
            let n = ns.len();
            let mut s = salt;
            for _ in 0..perturb {
                let i = (s % n as u64) as usize;
                s = s.rotate_left(17).wrapping_mul(0x9E3779B97F4A7C15);
                let j = (s % n as u64) as usize;
                s = s.rotate_left(17).wrapping_mul(0x9E3779B97F4A7C15);
                ns.swap(i, j);
            }
            let lines: Vec<String> = ns
                .into_iter()
                .enumerate()
                .map(|(k, (v, frac, sp))| {
                    let num = match frac {
                        0 => format!("{v}"),
                        1 => format!("{v}.0"),
                        3 if v >= 0 => format!("{v:05}"),
                        _ => format!("{v}.50"),
                    };
                    if with_pat {
                        // only integers are in the pattern family's value group
                        let vv = if frac == 3 && v >= 0 { format!("{v:05}") } else { format!("{v}") };
                        format!("key{k} ={}{vv}  # n", if sp { " " } else { "" })
                    } else {
                        format!("{}{num}", if sp { "  " } else { "" })
                    }
                })
                .collect();
            KsSpec {
                dir,
                pat: if with_pat { Some(r"=\s*(?P<value>-?[0-9]+)".into()) } else { None },
                format: Some("numeric".into()),
                lines,
                indent: 0,
            }
        },
    );
    prop_oneof![2 => plain, 1 => numeric].boxed()
}

pub fn random_batch() -> BoxedStrategy<KsBatch> {
    (prop_oneof![Just(Host::Sh), Just(Host::Rb), Just(Host::ShCrlf)], proptest::collection::vec(long_spec(), 1..6)).prop_map(|(host, specs)| KsBatch { host, specs }).boxed()
}

pub fn run(run: &mut Run) {
    run.rule = "every rendered file spells `name=value` in one of three ways (`=`, ` = `, ` =`), drawn from its first block. enumerated: every line sequence of length 0..k (k=4 quick, 5 thorough) over per-configuration alphabets (ordered/equal/prefix-related/indented/blank/numeric-looking and zero-padded lines) x 6 direction spellings x 13 (pattern, format) configurations (one over numbers a unit in the last place apart) (one with a `value` group that takes part in only one branch of an alternation) (the `value` group in both spellings, `(?P<value>…)` and `(?<value>…)`) (two of them with patterns that can match the empty string, so that matching lines with an empty key occur), batched into one file per 400 blocks and run through the real CLI; random: blocks of 6..120 lines (sorted then perturbed by 0..3 swaps; Unicode words; nested block tag lines as keys; numeric with/without pattern). Non-trivial block = at least 2 keys and (an equal or prefix-related adjacent pair, or a skipped line); distinct by (batch, block).".into();
    run.assumptions = vec![
        "content lines are shell/ruby words, which tree-sitter parses without touching the tag comments (block discovery itself is C03)".into(),
        "numeric keys are plain finite decimals; regexes come from a fixed family with hand-written extractors".into(),
    ];
    let k = run.tier.pick(4, 5);
    let items = enumerated(k, 400);
    run.enumerate("enum", items, Some(&format!("all line sequences of length <= {k} over the stated alphabets x directions x configurations")), check_batch);
    run.random("long", run.tier.pick(400, 8000), random_batch, check_batch);
}
