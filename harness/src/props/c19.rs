//! C19 — check-ai: request is faithful, reply decides, endpoint faults fail closed.
use crate::cli::{BwRun, Out, Sandbox};
use crate::engine::{Probe, Run, Verdict};
use crate::fakeai::{FakeAi, Reply, Request};
use crate::models;
use crate::report::parse_diags;
use crate::rules::quote_attr;
use proptest::prelude::*;
use serde::{Deserialize, Serialize};
use serde_json::json;

pub const REPLIES: &[&str] = &[
    "OK",
    "ok",
    "Ok.",
    "OK.",
    "oK",
    " OK",
    "OK ",
    "OKAY",
    "OK..",
    "Not OK",
    "The block does not mention 'banana'. Add it.",
    "line one\nline two",
    "quotes \" and \\ backslash and \t tab",
    "ünïcödé 日本 😀",
    "",
    "ok. but",
    // look-alikes that are no spelling of OK in any letter case (Greek capitals, full-width forms, a digit zero,
    // an invisible character after the word)
    "\u{39f}\u{39a}",
    "\u{ff2f}\u{ff2b}",
    "0K",
    "OK\u{200b}",
];

fn reply_is_ok(r: &str) -> bool {
    r.eq_ignore_ascii_case("ok") || r.eq_ignore_ascii_case("ok.")
}

#[derive(Clone, Debug, Serialize, Deserialize, Hash, PartialEq, Eq)]
pub struct AiBlock {
    pub condition: String,
    /// text of the content lines (each rendered as a `# text` comment line of a Python file)
    pub lines: Vec<String>,
    /// check-ai-pattern from the key-pattern family (index), if any
    pub pattern: Option<u8>,
    pub reply: u8,
    pub warning: bool,
    pub file: u8,
    /// render in a JavaScript block comment with the condition spread over two lines
    pub multiline_condition: bool,
    /// put a block WITHOUT check-ai (a plain named block) in front of this one in its file
    #[serde(default)]
    pub plain_before: bool,
    /// same condition, content, pattern and reply as the previous block (when both sit in the same kind of
    /// file): two blocks that differ only in where they are — each must still get its own request
    #[serde(default)]
    pub twin: bool,
}

#[derive(Clone, Debug, Serialize, Deserialize, Hash, PartialEq, Eq)]
pub struct AiCase {
    pub blocks: Vec<AiBlock>,
    /// None = no fault; Some((kind, request index))
    pub fault: Option<(u8, u8)>,
    pub key: String,
    pub model: String,
    pub diff_mode: bool,
}

pub const FAULTS: &[&str] = &[
    "no-key",
    "empty-key",
    "connection-refused",
    "400-json",
    "401-json",
    "404-plain",
    "400-plain",
    "200-invalid-json",
    "200-no-choices",
    "200-empty-choices",
    "200-null-content",
    "200-refusal-no-content",
    "200-message-without-content",
    "closed-mid-body",
    "closed-at-once",
    "200-empty-body",
];

fn fault_reply(kind: &str) -> Reply {
    let err = |t: &str| json!({"error": {"message": "rejected by the fake endpoint", "type": t, "param": null, "code": null}}).to_string();
    match kind {
        "400-json" => Reply::Raw(400, "application/json", err("invalid_request_error")),
        "401-json" => Reply::Raw(401, "application/json", err("invalid_api_key")),
        "404-plain" => Reply::Raw(404, "text/plain", "not found".into()),
        "400-plain" => Reply::Raw(400, "text/html", "<html>bad request</html>".into()),
        "200-invalid-json" => Reply::Raw(200, "application/json", "{\"id\": \"x\", \"choices\": [".into()),
        "200-no-choices" => Reply::Raw(200, "application/json", json!({"id": "x", "object": "chat.completion", "created": 1, "model": "m"}).to_string()),
        "200-empty-choices" => Reply::Raw(200, "application/json", json!({"id": "x", "object": "chat.completion", "created": 1, "model": "m", "choices": []}).to_string()),
        "200-null-content" => Reply::Raw(
            200,
            "application/json",
            json!({"id": "x", "object": "chat.completion", "created": 1, "model": "m", "choices": [{"index": 0, "message": {"role": "assistant", "content": null}, "finish_reason": "stop"}]}).to_string(),
        ),
        // content-less in two more shapes: a refusal instead of content, and a message without a content field
        "200-refusal-no-content" => Reply::Raw(
            200,
            "application/json",
            json!({"id": "x", "object": "chat.completion", "created": 1, "model": "m", "choices": [{"index": 0, "message": {"role": "assistant", "content": null, "refusal": "I cannot help with that."}, "finish_reason": "stop"}]}).to_string(),
        ),
        "200-message-without-content" => Reply::Raw(
            200,
            "application/json",
            json!({"id": "x", "object": "chat.completion", "created": 1, "model": "m", "choices": [{"index": 0, "message": {"role": "assistant"}, "finish_reason": "stop"}]}).to_string(),
        ),
        "closed-mid-body" => Reply::CloseMidBody,
        "closed-at-once" => Reply::CloseAtOnce,
        "200-empty-body" => Reply::Raw(200, "application/json", String::new()),
        _ => unreachable!(),
    }
}

struct Laid {
    path: String,
    text: String,
    /// per block of this file: (global index, tag line, tag col of '<', col of '>', raw content)
    blocks: Vec<(usize, usize, usize, usize, String)>,
}

fn lay_out(c: &AiCase) -> Vec<Laid> {
    let nfiles = 3;
    let mut out = vec![];
    for f in 0..nfiles {
        let idx: Vec<usize> = (0..c.blocks.len()).filter(|i| c.blocks[*i].file as usize % nfiles == f).collect();
        if idx.is_empty() {
            continue;
        }
        let js = f == 2;
        let path = if js { format!("ai{f}.js") } else { format!("dir{f}/ai{f}.py") };
        let mut text = String::new();
        let mut line = 1usize;
        let mut blocks = vec![];
        for &i in &idx {
            let b = &c.blocks[i];
            let src = &c.blocks[owner(c, i)];
            let cond = condition_of(c, i);
            let mut attrs = format!(" name=\"ai{i}\" check-ai={}", quote_attr(&cond));
            if let Some(p) = src.pattern {
                attrs.push_str(&format!(" check-ai-pattern={}", quote_attr(models::KEY_PATS[p as usize % models::KEY_PATS.len()].re)));
            }
            if b.warning {
                attrs.push_str(" severity=\"warning\"");
            }
            let tag = format!("<block{attrs}>");
            let (open, close, cl) = if js { ("/* ", " */", "// ") } else { ("# ", "", "# ") };
            if b.plain_before {
                text.push_str(&format!("{open}<block name=\"plain{i}\">{close}\n{cl}nothing to check\n{open}</block>{close}\n\n"));
                line += 4;
            }
            let tag_line = line;
            let tag_lines = tag.matches('\n').count();
            text.push_str(&format!("{open}{tag}{close}\n"));
            line += 1 + tag_lines;
            let mut content = String::from("\n");
            for l in &src.lines {
                let t = format!("{cl}{l}\n");
                text.push_str(&t);
                content.push_str(&t);
                line += 1;
            }
            text.push_str(&format!("{open}</block>{close}\n\n"));
            line += 2;
            let gt_col = if tag_lines == 0 { open.len() + tag.len() } else { tag.rsplit('\n').next().unwrap().len() };
            blocks.push((i, tag_line, open.len() + 1, gt_col, content));
        }
        out.push(Laid { path, text, blocks });
    }
    out
}

/// The block whose condition / content / pattern / reply block i carries (itself unless it is a twin).
fn owner(c: &AiCase, i: usize) -> usize {
    let mut k = i;
    while k > 0 && c.blocks[k].twin && (c.blocks[k].file % 3 == 2) == (c.blocks[k - 1].file % 3 == 2) {
        k -= 1;
    }
    k
}

/// Conditions are made unique per block or group of twins (the request -> block mapping goes through them).
fn condition_of(c: &AiCase, i: usize) -> String {
    let i = owner(c, i);
    let b = &c.blocks[i];
    // the third file is the JavaScript one: its block comments can hold a two-line attribute value but no `*/`
    let js = b.file % 3 == 2;
    let base = if js { b.condition.trim().replace("*/", "* /") } else { b.condition.trim().to_string() };
    if b.multiline_condition && js { format!("⟦{i}⟧ first line\nsecond line {base}") } else { format!("⟦{i}⟧ {base}") }
}

fn expected_content(b: &AiBlock, raw: &str) -> String {
    match b.pattern {
        None => raw.trim().to_string(),
        Some(p) => {
            let kp = &models::KEY_PATS[p as usize % models::KEY_PATS.len()];
            match (kp.extract)(raw) {
                Some((s, e)) => raw[s..e].to_string(),
                None => String::new(),
            }
        }
    }
}

pub fn check(c: &AiCase, probe: &Probe) -> Verdict {
    if c.blocks.is_empty() {
        return Verdict::Unspecified("no blocks");
    }
    let laid = lay_out(c);
    let fault_kind = c.fault.map(|(k, _)| FAULTS[k as usize % FAULTS.len()]);
    let fault_at = c.fault.map(|(_, at)| at as usize % c.blocks.len()).unwrap_or(0);
    let replies: Vec<String> = (0..c.blocks.len()).map(|i| REPLIES[c.blocks[owner(c, i)].reply as usize % REPLIES.len()].to_string()).collect();
    if (0..c.blocks.len()).any(|i| owner(c, i) != i) {
        probe.class("twin blocks (same condition and content)");
    }
    let conds: Vec<String> = (0..c.blocks.len()).map(|i| condition_of(c, i)).collect();
    let plan = {
        let conds = conds.clone();
        let replies = replies.clone();
        let fk = fault_kind.map(String::from);
        move |idx: usize, req: &Request| -> Reply {
            if let Some(k) = &fk
                && idx == fault_at
                && !matches!(k.as_str(), "no-key" | "empty-key" | "connection-refused")
            {
                return fault_reply(k);
            }
            let um = req.user_message().unwrap_or_default();
            // longest-index-first so that "[1]" does not match "[12]"
            for i in (0..conds.len()).rev() {
                if um.contains(&conds[i]) {
                    return Reply::Text(replies[i].clone());
                }
            }
            Reply::Text("unrecognised request".into())
        }
    };
    let fake = FakeAi::start(plan);
    let sb = if c.diff_mode { Sandbox::new() } else { Sandbox::with_fake_git() };
    let mut run = if c.diff_mode {
        sb.init_repo();
        sb.commit_all("base");
        for l in &laid {
            sb.write(&l.path, l.text.as_bytes());
        }
        sb.git_ok(&["add", "-A"]);
        let d = sb.git_diff(&["--cached"]);
        BwRun::diff(&[], d.as_bytes())
    } else {
        for l in &laid {
            sb.write(&l.path, l.text.as_bytes());
        }
        let paths: Vec<&str> = laid.iter().map(|l| l.path.as_str()).collect();
        BwRun::scan(&paths)
    };
    let url = if fault_kind == Some("connection-refused") { "http://127.0.0.1:9/v1".to_string() } else { fake.url() };
    run = run.env("BLOCKWATCH_AI_API_URL", &url).env("BLOCKWATCH_AI_MODEL", &c.model);
    // half of the cases run on a host whose environment carries the OpenAI SDK's own variables: only the
    // BLOCKWATCH_AI_* ones may decide where the request goes and with which key
    if (c.key.len() + c.blocks.len() + c.model.len()) % 2 == 0 {
        probe.class("ambient OPENAI_* variables present");
        run = run.env("OPENAI_API_KEY", "sk-ambient-foreign").env("OPENAI_BASE_URL", "http://127.0.0.1:9/v1").env("OPENAI_ORG_ID", "org-ambient");
    }
    match fault_kind {
        Some("no-key") => {}
        Some("empty-key") => run = run.env("BLOCKWATCH_AI_API_KEY", ""),
        _ => run = run.env("BLOCKWATCH_AI_API_KEY", &c.key),
    }
    run.timeout_s = Some(60);
    probe.child();
    let out = sb.bw(&run);
    let seen = fake.seen();
    let show = |what: &str, o: &Out| {
        let files: Vec<String> = laid.iter().map(|l| format!("--- {} ---\n{}", l.path, l.text)).collect();
        format!("C19: {what}\nfault: {fault_kind:?} on request #{fault_at}; key {:?} model {:?}\n{}\n--- {} request(s) seen ---\n{}\n--- observed ---\n{}", c.key, c.model, files.join("\n"), seen.len(), seen.iter().map(|r| format!("{} {} auth={:?} user={:?}", r.method, r.path, r.header("authorization"), r.user_message().map(|m| crate::cli::trunc(&m, 300)))).collect::<Vec<_>>().join("\n"), o.brief())
    };
    probe.class(&format!("fault:{}", fault_kind.unwrap_or("none")));
    probe.sample(|| json!({"fault": fault_kind, "fault_at": fault_at, "blocks": c.blocks.len(), "first_file": crate::cli::trunc(&laid[0].text, 400), "exit": out.code, "requests": seen.len()}));
    if out.timed_out {
        return Verdict::Fail(show("run did not finish within 60 s", &out));
    }
    if out.panicked() {
        return Verdict::Fail(show("crash", &out));
    }
    if let Some(k) = fault_kind {
        probe.nontrivial();
        if out.code == Some(0) {
            return Verdict::Fail(show(&format!("endpoint fault `{k}` but the run passed (exit 0)"), &out));
        }
        if out.stderr.trim().is_empty() {
            return Verdict::Fail(show("failed without any message", &out));
        }
        if matches!(k, "no-key" | "empty-key") && !seen.is_empty() {
            return Verdict::Fail(show("requests were sent although no API key is configured", &out));
        }
        return Verdict::Pass;
    }
    // no fault: request contract
    if seen.len() != c.blocks.len() {
        return Verdict::Fail(show(&format!("{} requests for {} check-ai blocks (expected exactly one each)", seen.len(), c.blocks.len()), &out));
    }
    let special = c.blocks.iter().any(|b| b.lines.iter().any(|l| l.contains('"') || l.contains('\\') || !l.is_ascii()));
    if c.blocks.len() >= 2 && special {
        probe.nontrivial();
    }
    for l in &laid {
        for (i, _, _, _, raw) in &l.blocks {
            let want_content = expected_content(&c.blocks[owner(c, *i)], raw);
            let group = (0..c.blocks.len()).filter(|k| owner(c, *k) == owner(c, *i)).count();
            // (only "carries the condition and the content verbatim" is required: the wording around them is free)
            let matching: Vec<&Request> = seen.iter().filter(|r| r.user_message().is_some_and(|m| m.contains(&conds[*i]))).collect();
            if matching.len() != group {
                return Verdict::Fail(show(&format!("{} requests carry the condition of block ai{i} verbatim (expected {group}: one per block with that condition): {:?}", matching.len(), conds[*i]), &out));
            }
            for r in matching {
            if r.method != "POST" || r.path != "/v1/chat/completions" {
                return Verdict::Fail(show(&format!("request for ai{i} is {} {}", r.method, r.path), &out));
            }
            if r.header("authorization") != Some(&format!("Bearer {}", c.key)) {
                return Verdict::Fail(show(&format!("request for ai{i} carries authorization {:?}", r.header("authorization")), &out));
            }
            let body = r.json().unwrap_or_default();
            if body.get("model").and_then(|m| m.as_str()) != Some(c.model.as_str()) {
                return Verdict::Fail(show(&format!("request for ai{i} names model {:?}", body.get("model")), &out));
            }
            let um = r.user_message().unwrap();
            let after = um.split_once(conds[*i].as_str()).map(|x| x.1).unwrap_or("");
            // the content must be carried *as trimmed*: an occurrence that starts at a line start (or after ": ")
            // and is followed by nothing, or by a line break and further text — not by left-over white space
            let carries = |needle: &str| {
                after.match_indices(needle).any(|(p, m)| {
                    let before = &after[..p];
                    let tail = &after[p + m.len()..];
                    let ok_before = before.is_empty() || before.ends_with('\n') || before.ends_with(": ");
                    let ok_after = tail.is_empty() || (tail.starts_with('\n') && !tail.trim().is_empty());
                    ok_before && ok_after
                })
            };
            if want_content.is_empty() {
                // an empty extract: no distinctive piece of the content (a token of >= 2 bytes holding a digit)
                // may be carried as if it were the content
                for tok in raw.split(|ch: char| ch.is_whitespace()).filter(|t| t.len() >= 2 && t.bytes().any(|b| b.is_ascii_digit())) {
                    if carries(tok) {
                        return Verdict::Fail(show(&format!("request for ai{i}: the pattern has no match in the content (as one text), yet the message carries {tok:?} in the content's place: {um:?}"), &out));
                    }
                }
            }
            let carried = want_content.is_empty() || carries(want_content.as_str());
            if !carried {
                return Verdict::Fail(show(&format!("request for ai{i} does not carry the block's content verbatim: expected the message to carry {want_content:?} after the condition, message is {um:?}"), &out));
            }
            }
        }
    }
    // reply contract
    let diags = match parse_diags(&out.stderr) {
        Ok(d) => d,
        Err(e) => return Verdict::Fail(show(&format!("no report although every reply was well-formed: {e}"), &out)),
    };
    let mut want: Vec<(String, u64, u64, u64, String, u64)> = vec![];
    for l in &laid {
        for (i, line, sc, ec, _) in &l.blocks {
            let r = &replies[*i];
            if !reply_is_ok(r) {
                let tag_lines = condition_of(c, *i).matches('\n').count();
                want.push((l.path.clone(), *line as u64, *sc as u64, (*line + tag_lines) as u64 * 1_000_000 + *ec as u64, r.clone(), if c.blocks[*i].warning { 2 } else { 1 }));
            }
        }
    }
    want.sort();
    let mut got: Vec<(String, u64, u64, u64, String, u64)> = diags
        .iter()
        .map(|d| (d.file.clone(), d.sl, d.sc, d.el * 1_000_000 + d.ec, d.data_json().get("ai_message").and_then(|v| v.as_str()).unwrap_or("<none>").to_string(), d.severity))
        .collect();
    got.sort();
    if diags.iter().any(|d| d.code != "check-ai") || got != want {
        return Verdict::Fail(show(&format!("diagnostics differ. expected (file, line, col, end, reply, severity): {want:?}; observed: {got:?}"), &out));
    }
    for d in &diags {
        let msg = d.data_json().get("ai_message").and_then(|v| v.as_str()).unwrap_or("").to_string();
        if !d.message.contains(&msg) {
            return Verdict::Fail(show("diagnostic message does not quote the reply", &out));
        }
    }
    let want_exit = if want.iter().any(|w| w.5 == 1) { 1 } else { 0 };
    if out.code != Some(want_exit) {
        return Verdict::Fail(show(&format!("exit {:?}, expected {want_exit}", out.code), &out));
    }
    Verdict::Pass
}

pub fn case_strategy() -> BoxedStrategy<AiCase> {
    let text = prop_oneof![
        4 => proptest::string::string_regex("[ -;=?-~]{0,30}").unwrap(),
        1 => Just("say \"hi\" \\ back\\slash 'single' {json: [1,2]} \\n \\u0041".to_string()),
        1 => Just("ünïcödé 日本語 😀 \u{a0}nbsp".to_string()),
        1 => Just("id:12 then id:7 tail 99".to_string()),
        1 => Just("k = 5 = -3".to_string()),
        1 => Just("ends with ideographic space\u{3000}".to_string()),
        1 => Just("ends with nbsp\u{a0}".to_string()),
        // text that looks like the placeholders of a prompt template
        1 => Just("f\"CONDITION: {condition} / BLOCK: {block}\" {} {0} %s ${content}".to_string()),
    ];
    let block = (text.clone(), proptest::collection::vec(text, 0..5), proptest::option::weighted(0.3, 0u8..(models::KEY_PATS.len() as u8)), 0u8..20, proptest::bool::weighted(0.2), 0u8..3, proptest::bool::weighted(0.15), proptest::bool::weighted(0.25), proptest::bool::weighted(0.2)).prop_map(
        |(condition, lines, pattern, reply, warning, file, multiline_condition, plain_before, twin)| {
            let condition = if condition.trim().is_empty() { "must hold".to_string() } else { condition.replace('"', "'") };
            AiBlock { condition, lines: lines.into_iter().map(|l| l.replace("<block", "<blok").replace("</block", "</blok")).collect(), pattern, reply, warning, file, multiline_condition, plain_before, twin }
        },
    );
    (
        proptest::collection::vec(block, 1..9),
        proptest::option::weighted(0.45, (0u8..16, any::<u8>())),
        prop_oneof![Just("test-key".to_string()), Just("sk-ÿ-not-ascii".to_string()).prop_map(|_| "sk-123_ABC".to_string())],
        prop_oneof![Just("gpt-5-nano".to_string()), Just("my/model:v1".to_string())],
        any::<bool>(),
    )
        .prop_map(|(blocks, fault, key, model, diff_mode)| AiCase { blocks, fault, key, model, diff_mode })
        .boxed()
}

/// Small scope for the pattern extract: every pattern of the family x contents in which only a NON-last line (or
/// only the last one) could match a line-anchored reading of the pattern. The extract is the first match in the
/// content as one text (`^` / `$` are the text's ends), empty if none.
pub fn extract_cases() -> Vec<AiCase> {
    let contents: &[&[&str]] = &[
        &["tail 99", "next line"],
        &["kab then", "id:7 x", "k = 5"],
        &["plain", "p:abc", "zz 12"],
        &["a", "b"],
        &["only 42"],
        &["x 1", "", "y"],
    ];
    let mut out = vec![];
    for p in 0..models::KEY_PATS.len() as u8 {
        for (k, ls) in contents.iter().enumerate() {
            for file in [0u8, 2] {
                out.push(AiCase {
                    blocks: vec![AiBlock {
                        condition: format!("extract {p}/{k}"),
                        lines: ls.iter().map(|l| l.to_string()).collect(),
                        pattern: Some(p),
                        reply: 0,
                        warning: false,
                        file,
                        multiline_condition: false,
                        plain_before: false,
                        twin: false,
                    }],
                    fault: None,
                    key: "k-extract".into(),
                    model: "m".into(),
                    diff_mode: (p as usize + k) % 2 == 0,
                });
            }
        }
    }
    out
}

pub fn run(run: &mut Run) {
    run.enumerate("extracts", extract_cases(), Some("every pattern of the key-pattern family x 6 multi-line contents x {Python, JavaScript} host"), check);
    run.rule = "enumerated extracts: one check-ai block per (pattern of the key-pattern family, one of 6 multi-line contents in which only a non-last line or only the last line could match a line-anchored reading, Python or JavaScript host): the request must carry the first match in the content taken as ONE text. random: 1..8 check-ai blocks spread over up to 3 files (Python `#` comments, or a JavaScript block comment with the condition spread over two lines), conditions and contents over printable ASCII incl. quotes, backslashes, braces, escapes, plus Unicode/NBSP/emoji and template-placeholder look-alikes (`{condition}`, `{block}`, `{}`, `%s`), optional check-ai-pattern from the key-pattern family, plain blocks without check-ai in front of 25% of them, 20% twins of the previous block (same condition, content, pattern and reply: one request each all the same), severity warning in 20%, scan or new-file diff mode, two keys and two model names; in half of the cases the OpenAI SDK's own OPENAI_API_KEY / OPENAI_BASE_URL / OPENAI_ORG_ID variables are set to foreign values; reply per block from 20 texts (OK, ok, Ok., OK., oK, ` OK`, `OK `, OKAY, OK.., multi-line, quotes/backslashes/tab, Unicode, empty, Greek / full-width / digit-zero / zero-width look-alikes of OK); in 45% one fault from 16 kinds (no key, empty key, connection refused, 400/401 JSON, 404/400 plain, 200 invalid JSON, 200 without choices, empty choices, null content, a refusal instead of content, a message without a content field, closed mid-body, closed at once, empty body) injected on the k-th arriving request. A recording fake endpoint is the observer. Non-trivial = a fault case, or >= 2 blocks with content that JSON must escape.".into();
    run.assumptions = vec![
        "429 and 5xx are not injected: the client library retries them with back-off for minutes and the statement does not list them".into(),
        "which block the k-th arriving request belongs to is not controlled".into(),
    ];
    run.shrink_iters = 150;
    run.random("ai", run.tier.pick(800, 15000), case_strategy, check);
}
