//! C17 — default Lua mode is a sandbox: no file, OS or module access.
use crate::cli::{BwRun, Out, Sandbox};
use crate::engine::{Probe, Run, Verdict};
use crate::report::parse_diags;
use serde::{Deserialize, Serialize};
use serde_json::json;
use std::collections::{BTreeMap, BTreeSet};

/// (label, value of BLOCKWATCH_LUA_MODE or None when unset, class)
pub const MODES: &[(&str, Option<&str>, &str)] = &[
    ("unset", None, "default"),
    ("sandboxed", Some("sandboxed"), "default"),
    ("Sandboxed", Some("Sandboxed"), "default"),
    ("empty", Some(""), "default"),
    ("garbage", Some("garbage"), "default"),
    ("SAFE", Some("SAFE"), "default"),
    ("unsafe-with-space", Some("unsafe "), "default"),
    ("safe", Some("safe"), "safe"),
    ("unsafe", Some("unsafe"), "unsafe"),
];

/// Breadth-first walk (sorted keys, so the first path of every value is deterministic) from _G, the string
/// metatable and the metatable of every reached value; prints `path:type` for every edge to a non-table value
/// and for every table the first time it is reached.
pub const ENUMERATOR: &str = r#"
local function walk()
  local seen, out, queue = {}, {}, {}
  local function keyname(k)
    if type(k) == "string" then return k end
    return "[" .. type(k) .. ":" .. tostring(k) .. "]"
  end
  local push
  push = function(v, path)
    local t = type(v)
    out[#out + 1] = path .. ":" .. t
    if t == "table" or t == "userdata" or t == "thread" or t == "function" then
      if seen[v] then return end
      seen[v] = true
    end
    if t == "table" then queue[#queue + 1] = {v, path} end
    local ok, mt = pcall(getmetatable, v)
    if ok and type(mt) == "table" and not seen[mt] then push(mt, path .. "<mt>") end
  end
  push(_G, "_G")
  push(getmetatable(""), "<stringmt>")
  local i = 1
  while i <= #queue do
    local tbl, path = queue[i][1], queue[i][2]
    i = i + 1
    local keys = {}
    for k, _ in next, tbl do keys[#keys + 1] = k end
    table.sort(keys, function(a, b) return keyname(a) < keyname(b) end)
    for _, k in ipairs(keys) do
      push(rawget(tbl, k), path .. "." .. keyname(k))
      if type(k) ~= "string" and type(k) ~= "number" and type(k) ~= "boolean" then push(k, path .. ".<key " .. keyname(k) .. ">") end
    end
  end
  table.sort(out)
  return table.concat(out, "\n")
end
-- what the script can reach while its top-level chunk runs counts as much as what validate() can reach
local EARLY = walk()
function validate(ctx, content)
  return EARLY .. "\n" .. walk()
end
"#;

const BASE_ALLOWED: &[&str] = &[
    "_G", "_VERSION", "validate", "assert", "collectgarbage", "error", "getmetatable", "ipairs", "load", "next", "pairs", "pcall", "print", "rawequal", "rawget", "rawlen", "rawset", "select", "setmetatable", "tonumber", "tostring", "type", "warn", "xpcall",
];
const LIBS_ALLOWED: &[&str] = &["coroutine", "table", "string", "utf8", "math"];
const FORBIDDEN_DEFAULT: &[&str] = &["io", "os", "package", "debug", "require", "dofile", "loadfile"];

fn run_script(script: &str, mode: Option<&str>, extra_files: &[(&str, &[u8])], probe: &Probe) -> (Out, Sandbox) {
    let sb = Sandbox::with_fake_git();
    sb.write("probe.lua", script.as_bytes());
    sb.write("f.py", b"# <block name=\"p\" check-lua=\"probe.lua\">\nx = 1\n# </block>\n");
    for (p, c) in extra_files {
        sb.write(p, c);
    }
    let mut run = BwRun::scan(&["f.py"]).env("BWV_SECRET_ENV", "s3cr3t-env");
    if let Some(m) = mode {
        run = run.env("BLOCKWATCH_LUA_MODE", m);
    }
    probe.child();
    (sb.bw(&run), sb)
}

fn payload(out: &Out) -> Result<String, String> {
    let d = parse_diags(&out.stderr)?;
    let d = d.first().ok_or("no diagnostic")?;
    Ok(d.data_json().get("lua_error").and_then(|v| v.as_str()).unwrap_or("").to_string())
}

#[derive(Clone, Debug, Serialize, Deserialize)]
pub struct ModeCase {
    pub mode: usize,
}

pub fn check_reach(c: &ModeCase, probe: &Probe) -> Verdict {
    let (label, value, class) = MODES[c.mode % MODES.len()];
    let (out, _sb) = run_script(ENUMERATOR, value, &[], probe);
    if out.timed_out || out.panicked() {
        return Verdict::Fail(format!("C17 [{label}]: enumerator run crashed: {}", out.brief()));
    }
    let listing = match payload(&out) {
        Ok(p) => p,
        Err(e) => return Verdict::Fail(format!("C17 [{label}]: enumerator produced no payload ({e}): {}", out.brief())),
    };
    let entries: Vec<(&str, &str)> = listing.lines().filter_map(|l| l.rsplit_once(':')).collect();
    let top: BTreeSet<&str> = entries.iter().filter_map(|(p, _)| p.strip_prefix("_G.")).filter(|r| !r.contains('.') && !r.contains('<')).collect();
    probe.evals(entries.len() as u64);
    probe.class(&format!("mode-class:{class}"));
    probe.nontrivial();
    probe.sample(|| json!({"mode": label, "reachable_edges": entries.len(), "globals": top}));
    let show = |what: String| format!("C17 [BLOCKWATCH_LUA_MODE {label} = {value:?}]: {what}\n--- reachable from the script's environment ({} edges); globals: {top:?}", entries.len());
    match class {
        "default" => {
            for f in FORBIDDEN_DEFAULT {
                if top.contains(f) {
                    return Verdict::Fail(show(format!("`{f}` is reachable as a global in the default (sandboxed) mode")));
                }
            }
            // everything reachable is inside the allow-list
            for (path, ty) in &entries {
                if *ty != "function" && *ty != "userdata" && *ty != "thread" {
                    continue;
                }
                let ok = if let Some(rest) = path.strip_prefix("_G.") {
                    let head = rest.split(['.', '<']).next().unwrap();
                    (BASE_ALLOWED.contains(&head) && !rest.contains('.')) || LIBS_ALLOWED.contains(&head)
                } else {
                    path.starts_with("<stringmt>")
                };
                if !ok {
                    return Verdict::Fail(show(format!("`{path}` ({ty}) is reachable but is not part of the base / coroutine / table / string / utf8 / math facilities")));
                }
            }
            for lib in LIBS_ALLOWED {
                if !top.contains(lib) {
                    // the statement allows less, but a sandbox without `string` would break every script: note only
                    probe.class("note:allowed-library-absent");
                }
            }
        }
        "safe" => {
            for f in ["io", "os", "package", "require"] {
                if !top.contains(f) {
                    return Verdict::Fail(show(format!("`{f}` is absent in safe mode")));
                }
            }
            if top.contains("debug") {
                return Verdict::Fail(show("`debug` is reachable in safe mode (only `unsafe` adds it)".into()));
            }
        }
        _ => {
            if !top.contains("debug") {
                return Verdict::Fail(show("`debug` is absent in unsafe mode".into()));
            }
        }
    }
    Verdict::Pass
}

// ------------------------------------------------------------------------------------------------
// escape attempts
// ------------------------------------------------------------------------------------------------

#[derive(Clone, Debug, Serialize, Deserialize, PartialEq, Eq, Hash)]
pub struct Attempt {
    pub goal: usize,
    pub route: usize,
    /// second route used to obtain the helper functions (`load`, `rawget`, …) themselves
    pub outer: usize,
    /// resolve the globals while the script's top-level chunk runs (captured in locals) instead of inside validate()
    #[serde(default)]
    pub early: bool,
    /// perform the whole attempt while the script's top-level chunk runs; validate() only reports what happened
    #[serde(default)]
    pub at_load: bool,
}

/// Ways to reach a global by name. `{N}` is the name; `{H:x}` a helper function obtained through the outer route.
pub const ROUTES: &[&str] = &[
    "{N}",
    "_G[\"{N}\"]",
    "{H:rawget}(_G, \"{N}\")",
    "{H:load}(\"return {N}\")()",
    "(function() local env = {H:setmetatable}({}, {__index = _G}); return {H:load}(\"return {N}\", \"c\", \"t\", env)() end)()",
    "{H:select}(2, {H:pcall}(function() return {N} end))",
    "coroutine.wrap(function() return {N} end)()",
    "(function() local t = {}; for k, v in {H:pairs}(_G) do t[k] = v end; return t[\"{N}\"] end)()",
    "(function() local k, v = nil, nil; repeat k, v = {H:next}(_G, k) until k == nil or k == \"{N}\"; return v end)()",
    "_G._G[\"{N}\"]",
    "(getmetatable(\"\").__index.format and _G)[\"{N}\"]",
    "{H:load}({H:load}(\"return string.dump(function() return {N} end)\")(), \"d\", \"b\", _G)()",
    "(function() local ok, v = {H:xpcall}(function() return {N} end, function(e) return e end); return v end)()",
];

pub const OUTER: &[&str] = &["{F}", "_G[\"{F}\"]", "rawget(_G, \"{F}\")", "load(\"return {F}\")()"];

/// (label, lua body using G("name") to reach globals; must `return "ESCAPED:" .. evidence` on success, minimum mode in which it works)
pub const GOALS: &[(&str, &str, &str)] = &[
    ("read-canary-io.open", "local f = G('io').open(CANARY, 'r'); local s = f:read('a'); f:close(); if s:find('canary') then return 'ESCAPED:' .. s end", "safe"),
    ("read-canary-io.lines", "for l in G('io').lines(CANARY) do if l:find('canary') then return 'ESCAPED:' .. l end end", "safe"),
    ("create-file", "local f = G('io').open(DIR .. '/created.txt', 'w'); f:write('x'); f:close(); do return 'ESCAPED:created' end", "safe"),
    ("run-command-os.execute", "local ok = G('os').execute('touch ' .. DIR .. '/cmd.txt'); if ok then return 'ESCAPED:executed' end", "safe"),
    ("run-command-io.popen", "local p = G('io').popen('echo popen-works'); local s = p:read('a'); p:close(); if s:find('popen') then return 'ESCAPED:' .. s end", "safe"),
    ("read-env", "local v = G('os').getenv('BWV_SECRET_ENV'); if v then return 'ESCAPED:' .. v end", "safe"),
    ("remove-file", "local ok = G('os').remove(DIR .. '/victim.txt'); if ok then return 'ESCAPED:removed' end", "safe"),
    ("load-code-dofile", "local v = G('dofile')(DIR .. '/secret.lua'); if v then return 'ESCAPED:' .. tostring(v) end", "safe"),
    ("load-code-loadfile", "local f = G('loadfile')(DIR .. '/secret.lua'); local v = f(); if v then return 'ESCAPED:' .. tostring(v) end", "safe"),
    ("load-code-loadfile-self", "local f = G('loadfile')('probe.lua'); if f then return 'ESCAPED:loaded own source' end", "safe"),
    ("load-code-require", "G('package').path = DIR .. '/?.lua'; local v = G('require')('secret'); if v then return 'ESCAPED:' .. tostring(v) end", "safe"),
    ("host-info-os.tmpname", "local v = G('os').tmpname(); if v then G('os').remove(v); return 'ESCAPED:' .. v end", "safe"),
    ("native-module-loadlib", "local f, e = G('package').loadlib(LIBC, '*'); if f then return 'ESCAPED:loadlib ' .. tostring(f) end; error(e)", "unsafe"),
    ("debug-registry", "local r = G('debug').getregistry(); if r then return 'ESCAPED:registry' end", "unsafe"),
];

pub fn program(a: &Attempt, dir: &str) -> String {
    let (_, body, _) = GOALS[a.goal % GOALS.len()];
    let route = ROUTES[a.route % ROUTES.len()];
    let outer = OUTER[a.outer % OUTER.len()];
    // expand helper functions through the outer route
    let mut r = route.to_string();
    while let Some(s) = r.find("{H:") {
        let e = r[s..].find('}').unwrap() + s;
        let f = r[s + 3..e].to_string();
        r.replace_range(s..=e, &format!("({})", outer.replace("{F}", &f)));
    }
    let resolver = format!("local function RESOLVE(name)\n  local code = [==[return {}]==]\n  code = code:gsub('{{N}}', name)\n  return load(code, 'route', 't', _ENV)()\nend\n", r);
    let g_fn = if a.early {
        // capture every interesting global at chunk-load time; validate() only uses the captured values
        format!("{resolver}local CAPTURED = {{}}\nfor _, n in ipairs({{'io', 'os', 'package', 'require', 'dofile', 'loadfile', 'debug'}}) do\n  local ok, v = pcall(RESOLVE, n)\n  if ok then CAPTURED[n] = v end\nend\nlocal function G(name) return CAPTURED[name] end\n")
    } else {
        format!("{resolver}local function G(name) return RESOLVE(name) end\n")
    };
    if a.at_load {
        return format!(
            "local DIR = {dir:?}\nlocal CANARY = DIR .. '/canary.txt'\nlocal LIBC = {:?}\n{g_fn}local OK, RES = pcall(function()\n    {body}\n    return 'contained:nothing-happened'\n  end)\nfunction validate(ctx, content)\n  if OK then return RES end\n  return 'contained:' .. tostring(RES)\nend\n",
            libc_path()
        );
    }
    format!(
        "local DIR = {dir:?}\nlocal CANARY = DIR .. '/canary.txt'\nlocal LIBC = {:?}\n{g_fn}function validate(ctx, content)\n  local ok, res = pcall(function()\n    {body}\n    return 'contained:nothing-happened'\n  end)\n  if ok then return res end\n  return 'contained:' .. tostring(res)\nend\n",
        libc_path()
    )
}

fn libc_path() -> String {
    for p in ["/lib/x86_64-linux-gnu/libc.so.6", "/usr/lib/x86_64-linux-gnu/libc.so.6", "/lib64/libc.so.6", "/usr/lib/libc.so.6"] {
        if std::path::Path::new(p).exists() {
            return p.to_string();
        }
    }
    "/lib/x86_64-linux-gnu/libc.so.6".to_string()
}

fn run_attempt(a: &Attempt, mode: Option<&str>, probe: &Probe) -> (Result<String, String>, bool, Out) {
    let jail = Sandbox::new();
    let dir = jail.root.display().to_string();
    jail.write("canary.txt", b"canary-content\n");
    jail.write("victim.txt", b"victim\n");
    jail.write("secret.lua", b"return 's3cr3t-lua'\n");
    let before = snapshot(&jail);
    let (out, _sb) = run_script(&program(a, &dir), mode, &[], probe);
    let after = snapshot(&jail);
    (payload(&out), before == after, out)
}

fn snapshot(sb: &Sandbox) -> BTreeMap<String, Vec<u8>> {
    let mut m = BTreeMap::new();
    if let Ok(rd) = std::fs::read_dir(&sb.root) {
        for e in rd.flatten() {
            m.insert(e.file_name().to_string_lossy().to_string(), std::fs::read(e.path()).unwrap_or_default());
        }
    }
    m
}

pub fn check_attempt(a: &Attempt, probe: &Probe) -> Verdict {
    let (glabel, _, min_mode) = GOALS[a.goal % GOALS.len()];
    // positive control: the attempt must work in the permissive mode it needs, otherwise it proves nothing
    let (pc, _, pc_out) = run_attempt(a, Some(min_mode), probe);
    let works = pc.as_deref().map(|p| p.starts_with("ESCAPED:")).unwrap_or(false);
    if !works {
        probe.class("attempt-does-not-work-even-when-permitted(dropped)");
        let _ = pc_out;
        return Verdict::Unspecified("escape attempt does not succeed in the permissive mode either (not a meaningful attempt)");
    }
    probe.nontrivial();
    probe.class(&format!("goal:{glabel}"));
    probe.sample(|| json!({"goal": glabel, "route": ROUTES[a.route % ROUTES.len()], "outer": OUTER[a.outer % OUTER.len()], "resolved_at": if a.early { "chunk load" } else { "inside validate()" }, "performed_at": if a.at_load { "chunk load" } else { "inside validate()" }, "works_in": min_mode}));
    probe.class(if a.early { "resolved-at:chunk-load" } else { "resolved-at:validate" });
    if a.at_load {
        probe.class("performed-at:chunk-load");
    }
    for (label, value, class) in MODES {
        let must_contain = match *class {
            "default" => true,
            "safe" => min_mode == "unsafe",
            _ => false,
        };
        if !must_contain {
            continue;
        }
        probe.evals(1);
        let (p, intact, out) = run_attempt(a, *value, probe);
        if out.timed_out || out.panicked() {
            return Verdict::Fail(format!("C17: crash running an escape attempt in mode {label}: {}", out.brief()));
        }
        let escaped = p.as_deref().map(|p| p.starts_with("ESCAPED:")).unwrap_or(false);
        if escaped || !intact {
            return Verdict::Fail(format!(
                "C17 [BLOCKWATCH_LUA_MODE {label} = {value:?}]: escape attempt `{glabel}` via route `{}` (helpers via `{}`) SUCCEEDED: script returned {:?}; jail directory intact: {intact}\n--- probe.lua ---\n{}",
                ROUTES[a.route % ROUTES.len()],
                OUTER[a.outer % OUTER.len()],
                p,
                program(a, "<jail>")
            ));
        }
    }
    Verdict::Pass
}

pub fn attempts(full: bool) -> Vec<Attempt> {
    let mut v = vec![];
    for goal in 0..GOALS.len() {
        for route in 0..ROUTES.len() {
            for outer in 0..OUTER.len() {
                if !full && outer != 0 && (goal + route + outer) % 3 != 0 {
                    continue;
                }
                v.push(Attempt { goal, route, outer, early: false, at_load: false });
                if outer == 0 {
                    v.push(Attempt { goal, route, outer, early: true, at_load: false });
                    v.push(Attempt { goal, route, outer, early: false, at_load: true });
                }
            }
        }
    }
    v
}

pub fn run(run: &mut Run) {
    run.rule = "enumerated: (1) a reachability enumerator script, run both while the script's top-level chunk executes and inside validate() (breadth-first walk with sorted keys from _G, the string metatable and the metatable of every reached value) is run in 9 settings of BLOCKWATCH_LUA_MODE (unset, sandboxed, Sandboxed, empty, garbage, SAFE, `unsafe ` with a space, safe, unsafe) and every reachable function/userdata/thread is compared with an allow-list written from the Lua 5.4 manual (default: base library minus dofile/loadfile, coroutine, table, string, utf8, math, no io/os/package/debug/require; safe: io, os, package, require present, debug absent; unsafe: debug present); (2) escape attempts goal (14: read/create/remove files, run commands, read environment, load code from disk via dofile/loadfile/require, own source, native module via loadlib, debug registry) x route to the global (13: direct, _G[...], rawget, load, load with custom env, pcall/select, coroutine.wrap, pairs copy, next walk, _G._G, string metatable, string.dump+load, xpcall) x route to the helper functions (4) x moment (resolved and performed inside validate(); globals captured while the script's top-level chunk runs; or the whole attempt performed by the top-level chunk, validate() only reporting its outcome), each first run in the permissive mode it needs (positive control; attempts that do not work there are dropped) and then in every default-class setting (and, for native-module/debug goals, in safe), where it must fail and leave the jail directory byte-identical. Evaluations count reachable edges and runs; non-trivial = every enumerator run and every attempt that passes its positive control.".into();
    run.assumptions = vec!["Lua has no ambient authority beyond values reachable from the script's environment: the enumerator decides the property for every script, the attempts are concrete confirmations".into()];
    let modes: Vec<ModeCase> = (0..MODES.len()).map(|mode| ModeCase { mode }).collect();
    run.enumerate("reach", modes, Some("9 settings of BLOCKWATCH_LUA_MODE x the whole reachable graph"), check_reach);
    let full = run.tier == crate::engine::Tier::Thorough;
    run.enumerate("escapes", attempts(full), Some(if full { "14 goals x 13 routes x 4 helper routes" } else { "14 goals x 13 routes x covering subset of helper routes" }), check_attempt);
}
