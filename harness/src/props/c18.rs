//! C18 — check-lua: one call per block, faithful arguments, errors fail the run.
use crate::cli::{BwRun, Out, Sandbox};
use crate::engine::{Probe, Run, Verdict};
use crate::models;
use crate::report::parse_diags;
use crate::rules::quote_attr;
use proptest::prelude::*;
use serde::{Deserialize, Serialize};
use serde_json::json;
use std::collections::BTreeMap;

pub const KINDS: &[&str] = &["payload", "nil", "syntax-error", "runtime-error", "no-validate", "returns-number", "returns-boolean", "returns-table", "error-with-table", "returns-true"];

#[derive(Clone, Debug, Serialize, Deserialize, Hash, PartialEq, Eq)]
pub struct LBlock {
    pub lines: Vec<String>,
    pub extra_attrs: Vec<(String, String)>,
    pub pattern: Option<u8>,
    /// index into KINDS; failing kinds are only honoured for the blocks listed in `failing`
    pub returns_nil: bool,
    pub busy: u32,
    pub file: u8,
    /// a block WITHOUT check-lua (other blocks of the file are scripted): never called, never reported
    #[serde(default)]
    pub plain: bool,
    /// reuse the script AND the content lines of the nearest earlier scripted block: two blocks that differ
    /// only in where they are and what their tags say
    #[serde(default)]
    pub shares_prev: bool,
    /// the script returns the empty string: still a string, hence one diagnostic carrying it
    #[serde(default)]
    pub returns_empty: bool,
}

/// half of the script-less blocks carry `line-count="<0" severity="warning"` (always violated, never failing the run)
fn plain_warns(b: &LBlock) -> bool {
    b.plain && b.lines.len() % 2 == 0
}

/// owner[i] = the block whose script (and content lines) block i uses
fn owners(c: &LuaCase) -> Vec<usize> {
    let mut o: Vec<usize> = (0..c.blocks.len()).collect();
    for i in 1..c.blocks.len() {
        if c.blocks[i].shares_prev && !c.blocks[i].plain
            && let Some(k) = (0..i).rev().find(|k| !c.blocks[*k].plain)
        {
            o[i] = o[k];
        }
    }
    o
}

#[derive(Clone, Debug, Serialize, Deserialize, Hash, PartialEq, Eq)]
pub struct LuaCase {
    pub blocks: Vec<LBlock>,
    /// (block index (mod), failure kind 2..) — empty = nobody fails
    pub failing: Vec<(u8, u8)>,
    pub workers: u8,
    pub one_core: bool,
    /// run in `safe` mode and count the calls through a log file
    pub count_calls: bool,
    pub diff_mode: bool,
}

fn script(kind: &str, busy: u32, log: Option<(&str, &str)>) -> String {
    let busy_loop = format!("  local x = 0\n  for i = 1, {busy} do x = x + i % 7 end\n");
    let logging = match log {
        // the log names the block the call was made for (scripts may be shared between blocks)
        Some((path, _)) => format!("  local f = io.open({path:?}, \"a\")\n  f:write(ctx.attrs.name .. \"\\n\")\n  f:close()\n"),
        None => String::new(),
    };
    let payload = "  local keys = {}\n  for k, _ in pairs(ctx.attrs) do keys[#keys + 1] = k end\n  table.sort(keys)\n  local parts = {\"<<\", ctx.file, \"|\", tostring(ctx.line), \"|\"}\n  for _, k in ipairs(keys) do parts[#parts + 1] = k .. \"=\" .. ctx.attrs[k] .. \";\" end\n  parts[#parts + 1] = \"|\" .. content .. \">>\"\n  return table.concat(parts)\n";
    match kind {
        // one payload script in three walks its parts through a producer coroutine of its own (busy loop inside it)
        "payload" if busy % 3 == 1 => format!(
            "function validate(ctx, content)\n{logging}  local gen = coroutine.wrap(function()\n{busy_loop}{}  for _, p in ipairs(parts) do coroutine.yield(p) end\n  end)\n  local out = {{}}\n  for p in gen do out[#out + 1] = p end\n  return table.concat(out)\nend\n",
            payload.replace("  return table.concat(parts)\n", "")
        ),
        "payload" => format!("function validate(ctx, content)\n{logging}{busy_loop}{payload}end\n"),
        "nil" => format!("function validate(ctx, content)\n{logging}{busy_loop}  return nil\nend\n"),
        "empty-string" => format!("function validate(ctx, content)\n{logging}{busy_loop}  return table.concat({{}}, \"; \")\nend\n"),
        "syntax-error" => "function validate(ctx, content)\n  return nil end end\n".to_string(),
        "runtime-error" => format!("function validate(ctx, content)\n{busy_loop}  error(\"boom\")\nend\n"),
        "no-validate" => "local function helper() return nil end\nvalidate_typo = helper\n".to_string(),
        "returns-number" => format!("function validate(ctx, content)\n{busy_loop}  return 42\nend\n"),
        "returns-boolean" => "function validate(ctx, content)\n  return false\nend\n".to_string(),
        "returns-true" => "function validate(ctx, content)\n  return true\nend\n".to_string(),
        "returns-table" => "function validate(ctx, content)\n  return {\"not a string\"}\nend\n".to_string(),
        "error-with-table" => "function validate(ctx, content)\n  error({code = 1})\nend\n".to_string(),
        _ => unreachable!(),
    }
}

struct Laid {
    path: String,
    text: String,
    /// (block index, tag line, raw content, attrs as written)
    blocks: Vec<(usize, usize, String, BTreeMap<String, String>)>,
}

fn lay_out(c: &LuaCase) -> Vec<Laid> {
    let own = owners(c);
    let mut out = vec![];
    for f in 0..6usize {
        let idx: Vec<usize> = (0..c.blocks.len()).filter(|i| c.blocks[*i].file as usize % 6 == f).collect();
        if idx.is_empty() {
            continue;
        }
        let path = match f {
            0 => "l0.py".to_string(),
            1 => "pkg/l1.py".to_string(),
            2 => "pkg/sub dir/l2.sh".to_string(),
            3 => "l3.toml".to_string(),
            4 => "deep/er/l4.yaml".to_string(),
            // Rust doc comments: the comment node swallows its line terminator, so the content starts on the
            // next line (ctx.line must still be the tag's line)
            _ => "src/l5.rs".to_string(),
        };
        let (topen, copen) = if f == 5 { ("/// ", "// ") } else { ("# ", "# ") };
        let mut text = String::new();
        let mut line = 1usize;
        let mut blocks = vec![];
        for &i in &idx {
            let b = &c.blocks[i];
            let mut attrs: BTreeMap<String, String> = BTreeMap::new();
            let mut tag = format!("<block name=\"lb{i}\"");
            attrs.insert("name".into(), format!("lb{i}"));
            for (k, v) in &b.extra_attrs {
                if attrs.contains_key(k) || k.starts_with("check-") {
                    continue;
                }
                tag.push_str(&format!(" {k}={}", quote_attr(v)));
                attrs.insert(k.clone(), v.clone());
            }
            if plain_warns(b) {
                // a block without a script whose own rule reports a WARNING: the report is then never empty, and a
                // failing script elsewhere must still fail the run
                tag.push_str(" line-count=\"<0\" severity=\"warning\"");
            }
            if !b.plain {
                tag.push_str(&format!(" check-lua=\"scripts/s{}.lua\"", own[i]));
                attrs.insert("check-lua".into(), format!("scripts/s{}.lua", own[i]));
            }
            if let Some(p) = b.pattern.filter(|_| !b.plain) {
                let re = models::KEY_PATS[p as usize % models::KEY_PATS.len()].re;
                tag.push_str(&format!(" check-lua-pattern={}", quote_attr(re)));
                attrs.insert("check-lua-pattern".into(), re.to_string());
            }
            tag.push('>');
            text.push_str(&format!("{topen}{tag}\n"));
            let tag_line = line;
            line += 1;
            let mut content = String::from("\n");
            for l in &c.blocks[own[i]].lines {
                let t = if l.trim().is_empty() { format!("{l}\n") } else { format!("{copen}{l}\n") };
                text.push_str(&t);
                content.push_str(&t);
                line += 1;
            }
            text.push_str(&format!("{topen}</block>\n\n"));
            line += 2;
            blocks.push((i, tag_line, content, attrs));
        }
        out.push(Laid { path, text, blocks });
    }
    out
}

pub fn check(c: &LuaCase, probe: &Probe) -> Verdict {
    if c.blocks.is_empty() {
        return Verdict::Unspecified("no blocks");
    }
    let n = c.blocks.len();
    let mut kind: Vec<&str> = c.blocks.iter().map(|b| if b.plain { "plain" } else if b.returns_nil { "nil" } else if b.returns_empty { "empty-string" } else { "payload" }).collect();
    for (bi, k) in &c.failing {
        if !c.blocks[*bi as usize % n].plain {
            kind[*bi as usize % n] = KINDS[2 + *k as usize % (KINDS.len() - 2)];
        }
    }
    let own = owners(c);
    for i in 0..n {
        if own[i] != i {
            kind[i] = kind[own[i]];
            probe.class("block-sharing-script-and-content-with-an-earlier-one");
        }
    }
    let any_failing = kind.iter().any(|k| !matches!(*k, "nil" | "payload" | "plain" | "empty-string"));
    let laid = lay_out(c);
    let sb = if c.diff_mode { Sandbox::new() } else { Sandbox::with_fake_git() };
    let log_path = sb.base.join("calls.log");
    let log_s = log_path.display().to_string();
    if c.diff_mode {
        sb.init_repo();
        sb.commit_all("base");
    }
    for (i, b) in c.blocks.iter().enumerate() {
        if b.plain || own[i] != i {
            continue;
        }
        let name = format!("lb{i}");
        let log = if c.count_calls { Some((log_s.as_str(), name.as_str())) } else { None };
        sb.write(&format!("scripts/s{i}.lua"), script(kind[i], b.busy, log).as_bytes());
    }
    for l in &laid {
        sb.write(&l.path, l.text.as_bytes());
    }
    let mut run = if c.diff_mode {
        sb.git_ok(&["add", "-A"]);
        let ps: Vec<&str> = laid.iter().map(|l| l.path.as_str()).collect();
        let mut a = vec!["--cached", "--"];
        a.extend(ps.iter());
        let d = sb.git_diff(&a);
        BwRun::diff(&[], d.as_bytes())
    } else {
        let ps: Vec<&str> = laid.iter().map(|l| l.path.as_str()).collect();
        BwRun::scan(&ps)
    };
    let workers = [1u32, 2, 4, 16][c.workers as usize % 4];
    run = run.env("TOKIO_WORKER_THREADS", &workers.to_string());
    if c.count_calls {
        run = run.env("BLOCKWATCH_LUA_MODE", "safe");
    }
    if c.one_core {
        run.taskset = Some("0".into());
    }
    run.timeout_s = Some(120);
    probe.child();
    let out = sb.bw(&run);
    let show = |what: &str, o: &Out| {
        let files: Vec<String> = laid.iter().map(|l| format!("--- {} ---\n{}", l.path, l.text)).collect();
        format!("C18: {what}\nscript kinds: {kind:?}; workers {workers}; one core {}; safe+log {}\n{}\n--- observed ---\n{}", c.one_core, c.count_calls, files.join("\n"), o.brief())
    };
    probe.class(if any_failing { "some-script-fails" } else { "no-script-fails" });
    probe.class(&format!("workers:{workers}"));
    probe.sample(|| json!({"blocks": n, "kinds": kind, "workers": workers, "one_core": c.one_core, "first_file": crate::cli::trunc(&laid[0].text, 300), "exit": out.code}));
    if out.timed_out {
        return Verdict::Fail(show("run did not finish within 120 s", &out));
    }
    if out.panicked() {
        return Verdict::Fail(show("crash", &out));
    }
    if any_failing {
        if n >= 3 {
            probe.nontrivial();
        }
        if out.code == Some(0) || out.stderr.trim().is_empty() {
            return Verdict::Fail(show("a script failed (syntax/runtime error, missing validate or non-string result) but the run did not fail with a message", &out));
        }
        if parse_diags(&out.stderr).is_ok() {
            return Verdict::Fail(show("a script failed but the run only printed an ordinary report", &out));
        }
        return Verdict::Pass;
    }
    if n >= 3 && c.blocks.iter().any(|b| b.busy > 1000) {
        probe.nontrivial();
    }
    let diags = match parse_diags(&out.stderr) {
        Ok(d) => d,
        Err(e) => return Verdict::Fail(show(&format!("no report: {e}"), &out)),
    };
    let mut want: Vec<(String, u64, String)> = vec![];
    for l in &laid {
        for (i, tag_line, raw, attrs) in &l.blocks {
            if kind[*i] == "empty-string" {
                want.push((l.path.clone(), *tag_line as u64, String::new()));
                continue;
            }
            if kind[*i] != "payload" {
                continue;
            }
            let content = match c.blocks[*i].pattern {
                None => raw.trim().to_string(),
                Some(p) => match (models::KEY_PATS[p as usize % models::KEY_PATS.len()].extract)(raw) {
                    Some((s, e)) => raw[s..e].to_string(),
                    None => String::new(),
                },
            };
            let attrs_s: String = attrs.iter().map(|(k, v)| format!("{k}={v};")).collect();
            want.push((l.path.clone(), *tag_line as u64, format!("<<{}|{}|{}|{}>>", l.path, tag_line, attrs_s, content)));
        }
    }
    want.sort();
    // warnings of the script-less blocks: exactly one `line-count` warning per such block, nothing else
    let mut want_warn: Vec<(String, u64)> = laid.iter().flat_map(|l| l.blocks.iter().filter(|(i, ..)| plain_warns(&c.blocks[*i])).map(|(_, tag_line, ..)| (l.path.clone(), *tag_line as u64))).collect();
    want_warn.sort();
    let mut got_warn: Vec<(String, u64)> = diags.iter().filter(|d| d.code == "line-count" && d.severity == 2).map(|d| (d.file.clone(), d.sl)).collect();
    got_warn.sort();
    if got_warn != want_warn {
        return Verdict::Fail(show(&format!("warnings of the script-less blocks differ: expected {want_warn:?}, observed {got_warn:?}"), &out));
    }
    if !want_warn.is_empty() {
        probe.class("with-warnings-from-another-rule");
    }
    let diags: Vec<_> = diags.into_iter().filter(|d| !(d.code == "line-count" && d.severity == 2)).collect();
    let mut got: Vec<(String, u64, String)> = diags.iter().map(|d| (d.file.clone(), d.sl, d.data_json().get("lua_error").and_then(|v| v.as_str()).unwrap_or("<none>").to_string())).collect();
    got.sort();
    if diags.iter().any(|d| d.code != "check-lua") || got != want {
        let missing: Vec<_> = want.iter().filter(|w| !got.contains(w)).collect();
        let extra: Vec<_> = got.iter().filter(|g| !want.contains(g)).collect();
        return Verdict::Fail(show(&format!("diagnostics differ from one per string-returning block with the constructed payload.\n missing: {missing:?}\n unexpected: {extra:?}"), &out));
    }
    for d in &diags {
        let p = d.data_json().get("lua_error").and_then(|v| v.as_str()).unwrap_or("").to_string();
        if !d.message.contains(&p) {
            return Verdict::Fail(show("diagnostic message does not carry the returned string", &out));
        }
    }
    if out.code != Some(if want.is_empty() { 0 } else { 1 }) {
        return Verdict::Fail(show("exit status does not follow the diagnostics", &out));
    }
    if c.count_calls {
        let log = std::fs::read_to_string(&log_path).unwrap_or_default();
        let mut counts: BTreeMap<&str, usize> = BTreeMap::new();
        for l in log.lines() {
            *counts.entry(l).or_insert(0) += 1;
        }
        for i in 0..n {
            let name = format!("lb{i}");
            let want_calls = if c.blocks[i].plain { 0 } else { 1 };
            if counts.get(name.as_str()).copied().unwrap_or(0) != want_calls {
                return Verdict::Fail(show(&format!("validate() of block {name} was called {} times (call log: {counts:?})", counts.get(name.as_str()).copied().unwrap_or(0)), &out));
            }
        }
        probe.class("call-count-checked");
    }
    Verdict::Pass
}

pub fn case_strategy() -> BoxedStrategy<LuaCase> {
    let text = prop_oneof![
        4 => proptest::string::string_regex("[ -;=?-~]{0,24}").unwrap(),
        1 => Just("say \"hi\" \\ 'x' id:7 and id:12".to_string()),
        1 => Just("ünï 日本 😀".to_string()),
        1 => Just(String::new()),
        1 => Just("   ".to_string()),
        1 => Just("k = -5".to_string()),
        1 => Just("j 12 then k 7".to_string()),
        1 => Just("kappa".to_string()),
        1 => Just("ends with ideographic space\u{3000}".to_string()),
        1 => Just("ends with nbsp\u{a0}\u{a0}".to_string()),
    ];
    let attr = (prop_oneof![Just("data-x"), Just("note"), Just("k_1"), Just("имя")], proptest::string::string_regex("[ -!#-;=?-~é]{0,12}").unwrap()).prop_map(|(k, v)| (k.to_string(), v));
    let block = (proptest::collection::vec(text, 0..6), proptest::collection::vec(attr, 0..3), proptest::option::weighted(0.3, 0u8..(models::KEY_PATS.len() as u8)), proptest::bool::weighted(0.3), prop_oneof![3 => Just(0u32), 2 => 0u32..2000, 1 => 0u32..300000], 0u8..6, proptest::bool::weighted(0.2), proptest::bool::weighted(0.25), proptest::bool::weighted(0.1))
        .prop_map(|(lines, extra_attrs, pattern, returns_nil, busy, file, plain, shares_prev, returns_empty)| LBlock { lines: lines.into_iter().map(|l| l.replace("<block", "<blok").replace("</block", "</blok")).collect(), extra_attrs, pattern, returns_nil, busy, file, plain, shares_prev, returns_empty })
        .boxed();
    (
        prop_oneof![3 => proptest::collection::vec(block.clone(), 1..8), 1 => proptest::collection::vec(block, 8..41)],
        prop_oneof![1 => Just(vec![]), 1 => proptest::collection::vec((any::<u8>(), 0u8..8), 1..4)],
        0u8..4,
        proptest::bool::weighted(0.3),
        any::<bool>(),
        proptest::bool::weighted(0.3),
    )
        .prop_map(|(blocks, failing, workers, one_core, count_calls, diff_mode)| LuaCase { blocks, failing, workers, one_core, count_calls, diff_mode })
        .boxed()
}

pub fn run(run: &mut Run) {
    run.rule = "random: 1..40 check-lua blocks over up to 5 files (root and nested directories, one with a space; py/sh/toml/yaml), each with its own generated script, except that 25% reuse the script and the content lines of the nearest earlier scripted block (same or other file; only position and tag differ) (20% of the blocks carry no check-lua at all and sit between scripted ones; half of those carry an always-violated `line-count` rule of severity warning, so that the report is not empty when a script fails elsewhere), arbitrary content lines (printable ASCII incl. quotes and backslashes, Unicode, empty and whitespace-only first/last lines), 0..2 extra attributes, optional check-lua-pattern from the key-pattern family; scripts return a framed payload serialising ctx.file, ctx.line, the sorted ctx.attrs and content (a third of them assemble it through a producer coroutine of their own that also holds the busy loop), or nil, or (10%) the empty string — still one diagnostic —, after a busy loop of 0..300000 iterations; in half of the cases 1..3 blocks get a failing script (syntax error, error(), error with a table, no validate, number / false / true / table result) at any index; TOKIO_WORKER_THREADS in {1,2,4,16}, pinned to one core in 30%, `safe` mode with an appended call log in 50%, scan or new-file diff mode. Non-trivial = >= 3 blocks and (a failing script, or busy loops of different lengths).".into();
    run.assumptions = vec!["the Tokio schedule is perturbed (worker count, affinity, busy loops), not owned: an interleaving-specific loss could be missed".into()];
    run.shrink_iters = 120;
    run.random("lua", run.tier.pick(500, 12000), case_strategy, check);
}
