//! C07 — keep-unique reports a block iff two keys coincide.
use crate::engine::{Probe, Run, Verdict};
use crate::models;
use crate::rules::{ExpDiag, Host, RuleBlock};
use proptest::prelude::*;
use serde::{Deserialize, Serialize};
use serde_json::json;

#[derive(Clone, Debug, PartialEq, Eq, Hash, Serialize, Deserialize)]
pub struct KuSpec {
    /// keep-unique attribute value: None = bare, Some("") = empty, Some(re) = regex from the family
    pub re: Option<String>,
    pub lines: Vec<String>,
    pub indent: usize,
    /// a second rule on the same block: 0 none, 1 `keep-sorted`, 2 `keep-sorted="desc"`, 3 `line-count=">=0"`
    #[serde(default)]
    pub companion: u8,
}

#[derive(Clone, Debug, Serialize, Deserialize)]
pub struct KuBatch {
    pub host: Host,
    pub specs: Vec<KuSpec>,
}

impl KuSpec {
    pub fn pat(&self) -> Option<&'static models::KeyPat> {
        match self.re.as_deref() {
            None | Some("") => None,
            Some(p) => Some(models::key_pat(p).expect("pattern from the family")),
        }
    }
    pub fn to_block(&self, i: usize) -> RuleBlock {
        let mut attrs = vec![("name".into(), Some(format!("b{i}")))];
        match self.companion % 4 {
            1 => attrs.push(("keep-sorted".into(), None)),
            2 => attrs.push(("keep-sorted".into(), Some("desc".into()))),
            3 => attrs.push(("line-count".into(), Some(">=0".into()))),
            _ => {}
        }
        attrs.push(("keep-unique".into(), self.re.clone()));
        RuleBlock { attrs, lines: self.lines.clone(), indent: self.indent }
    }
    /// what the companion rule reports on the same block (reference model of C06)
    pub fn companion_model(&self) -> Option<(usize, models::Span)> {
        let dir = match self.companion % 4 {
            1 => models::Dir::Asc,
            2 => models::Dir::Desc,
            _ => return None,
        };
        let lines: Vec<&str> = self.lines.iter().map(String::as_str).collect();
        match models::keep_sorted(&lines, dir, None, false) {
            models::KsOutcome::OutOfOrder(i, sp) => Some((i, sp)),
            _ => None,
        }
    }
    pub fn model(&self) -> Option<(usize, models::Span)> {
        let lines: Vec<&str> = self.lines.iter().map(String::as_str).collect();
        models::keep_unique(&lines, self.pat())
    }
}

pub fn check_batch(b: &KuBatch, probe: &Probe) -> Verdict {
    let blocks: Vec<RuleBlock> = b.specs.iter().enumerate().map(|(i, s)| s.to_block(i)).collect();
    let outcomes: Vec<_> = b.specs.iter().map(KuSpec::model).collect();
    probe.evals(b.specs.len() as u64 - 1);
    for (s, o) in b.specs.iter().zip(&outcomes) {
        let keyed = s.lines.iter().filter(|l| match s.pat() {
            None => models::trimmed_span(l).is_some(),
            Some(p) => (p.extract)(l).is_some(),
        });
        let nkeys = keyed.count();
        // non-trivial: >= 2 keys and (a duplicate, or two distinct lines with the same key, or a skipped line)
        let mut distinct_lines = s.lines.clone();
        distinct_lines.sort();
        distinct_lines.dedup();
        if nkeys >= 2 && (o.is_some() || nkeys < s.lines.len() || distinct_lines.len() < s.lines.len()) {
            probe.nontrivial_sub(s);
        }
        probe.class(if o.is_some() { "duplicate" } else { "unique" });
    }
    probe.sample(|| {
        let s = &b.specs[b.specs.len() / 2];
        json!({"host": format!("{:?}", b.host), "batch_size": b.specs.len(), "one_block": s, "model_first_duplicate": format!("{:?}", s.model())})
    });
    let exp = |i: usize, pos: &crate::rules::BlockPos| -> Vec<ExpDiag> {
        let mut v = vec![];
        if let Some((idx, span)) = &outcomes[i] {
            v.push(ExpDiag::key("keep-unique", pos, *idx, *span));
        }
        if let Some((idx, span)) = b.specs[i].companion_model() {
            v.push(ExpDiag::key("keep-sorted", pos, idx, span));
        }
        v
    };
    let reduce = |i: usize| serde_json::to_value(KuBatch { host: b.host, specs: vec![b.specs[i].clone()] }).unwrap();
    super::linerules::check_rule_batch("C07", b.host, &blocks, &exp, probe, &reduce)
}

const ALPHA: &[&str] = &["a", "a ", " a", "b", "", "  ", "A", "id:1 x", "id:1 y", "id:2 x", "zzz id:01", "a\u{a0}", "\u{3000}", "k 7", "j 7", "t \"</block>\""];
const RES: &[Option<&str>] = &[None, Some(""), Some("id:(?P<value>[0-9]+)"), Some("id:[0-9]+"), Some("id:(?<value>[0-9]+)"), Some("[0-9]+$"), Some("(k|j) (?P<value>[0-9]+)")];

pub fn enumerated(max_len: usize, batch: usize) -> Vec<KuBatch> {
    let mut specs = vec![];
    for len in 0..=max_len {
        for seq in super::c06::sequences(ALPHA, len).into_iter().filter(|s| s.len() == len) {
            for re in RES {
                specs.push(KuSpec { re: re.map(String::from), lines: seq.clone(), indent: 0, companion: 0 });
                if re.is_none() {
                    // the README's `<block keep-sorted keep-unique>` idiom: both rules on one block
                    specs.push(KuSpec { re: None, lines: seq.clone(), indent: 0, companion: 1 + (seq.len() % 2) as u8 });
                }
            }
        }
    }
    specs.chunks(batch).enumerate().map(|(k, c)| KuBatch { host: if k % 3 == 2 { Host::ShCrlf } else { Host::Sh }, specs: c.to_vec() }).collect()
}

fn long_spec() -> BoxedStrategy<KuSpec> {
    let word = proptest::string::string_regex("[a-eAE\u{301}é名.]{1,3}").unwrap();
    (
        proptest::collection::vec((word, 0usize..3, 0usize..3, 0u32..40), 5..150),
        0usize..RES.len(),
        any::<bool>(),
        0usize..3,
        prop_oneof![2 => Just(0u8), 1 => 1u8..4],
        prop_oneof![3 => Just(0usize), 1 => 1usize..4],
    )
        .prop_map(|(ws, re_i, dup_free, indent, companion, nested)| {
            let with_re = re_i >= 2;
            let mut lines: Vec<String> = vec![];
            for (k, (w, l, t, id)) in ws.into_iter().enumerate() {
                let core = if dup_free { format!("{w}{k}") } else { w };
                let id = if dup_free { k as u32 + 100 } else { id };
                lines.push(if with_re {
                    format!("{}{core} id:{id} tail{k}{}", " ".repeat(l), " ".repeat(t))
                } else {
                    format!("{}{core}{}", " ".repeat(l), " ".repeat(t))
                });
            }
            // nested blocks: their tag comments are lines of the outer block like any other (two nested blocks end
            // in the same `# </block>` line, one already repeats a line when a string mentions a tag)
            for j in 0..nested {
                let at = (j * 7 + 2).min(lines.len());
                lines.splice(at..at, [format!("# <block name=\"in{j}\">"), format!("q{j} id:{} \"</block>\"", 900 + j), "# </block>".to_string()]);
            }
            KuSpec { re: RES[re_i].map(String::from), lines, indent, companion }
        })
        .boxed()
}

pub fn random_batch() -> BoxedStrategy<KuBatch> {
    (prop_oneof![Just(Host::Sh), Just(Host::Rb), Just(Host::ShCrlf)], proptest::collection::vec(long_spec(), 1..6)).prop_map(|(host, specs)| KuBatch { host, specs }).boxed()
}

pub fn run(run: &mut Run) {
    run.rule = "every rendered file spells `name=value` in one of three ways (`=`, ` = `, ` =`), drawn from its first block. enumerated: every line sequence of length 0..k (k=4 quick, 5 thorough) over a 16-line alphabet (repeated keys, a line whose string mentions an end tag, keys differing only in indentation/trailing blanks, keys differing only outside the regex group, blank and non-matching lines) x {bare attribute, empty value, group regex in both spellings, plain regex, a regex anchored at the line end, a regex with an unnamed group in front of the `value` group}, the bare form also together with keep-sorted / keep-sorted=desc on the same block (both rules' diagnostics expected); random: blocks of 5..150 lines with and without duplicates (keys of 1..3 characters over `a`-`e`, `A`, `E`, `é`, a combining acute accent, `名` and `.`, so that keys differing only in letter case, in composed / decomposed spelling or in a trailing dot sit next to real duplicates: they are different keys), a quarter of them holding 1..3 nested blocks (whose tag comments are lines of the outer block). Non-trivial block = at least 2 keys and (a duplicate key, a skipped line, or a repeated line); distinct by (batch, block).".into();
    run.assumptions = vec![
        "content lines are shell/ruby words (block discovery itself is C03)".into(),
        "regexes come from a fixed family with hand-written extractors".into(),
    ];
    let k = run.tier.pick(4, 5);
    run.enumerate("enum", enumerated(k, 400), Some(&format!("all line sequences of length <= {k} over the stated alphabet x 4 attribute forms")), check_batch);
    run.random("long", run.tier.pick(400, 8000), random_batch, check_batch);
}
