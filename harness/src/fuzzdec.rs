//! Byte-level decoding of fuzzer input into the structured cases of C03/C05, and the in-process form of
//! their oracle (listing only: content needs the check-lua echo, which is CLI-only).
use crate::builder::{Attr, Ev, Place, StartTag, Val};
use crate::inproc::{self, Outcome};
use crate::langs::{self, SUFFIXES};
use crate::props::c03::{SrcCase, prepare};

pub struct Cursor<'a> {
    d: &'a [u8],
    i: usize,
}

impl<'a> Cursor<'a> {
    pub fn new(d: &'a [u8]) -> Self {
        Cursor { d, i: 0 }
    }
    pub fn u8(&mut self) -> u8 {
        let b = self.d.get(self.i).copied().unwrap_or(0);
        self.i += 1;
        b
    }
    pub fn u16(&mut self) -> u16 {
        (self.u8() as u16) << 8 | self.u8() as u16
    }
    pub fn done(&self) -> bool {
        self.i >= self.d.len()
    }
    pub fn bool(&mut self) -> bool {
        self.u8() & 1 == 1
    }
    pub fn text(&mut self, max: usize, alphabet: &[char]) -> String {
        let n = self.u8() as usize % (max + 1);
        (0..n).map(|_| alphabet[self.u8() as usize % alphabet.len()]).collect()
    }
}

const NAME_CH: &[char] = &['a', 'b', 'k', 'n', 'x', 'Z', '0', '9', '-', '_', 'é', 'ж', '名'];
const VAL_CH: &[char] = &['a', 'b', ' ', '>', '<', '=', '\'', '"', '/', '*', '-', '.', ':', 'é', '😀', '1', '#', ')', '(', '\\'];
const WS: &[&str] = &["", " ", "  ", "\t", "\n", " \n ", "\n\n"];

fn place(c: &mut Cursor) -> Place {
    let f = c.u8();
    let bits = c.u8();
    Place {
        form: f,
        join: bits & 1 != 0,
        lead: bits & 2 != 0,
        trail: bits & 4 != 0,
        nl_before: bits & 8 != 0,
        nl_after: bits & 16 != 0,
        star: bits & 32 != 0,
        pre: if bits & 64 != 0 { c.u8() } else { 0 },
        post: if bits & 128 != 0 { c.u8() } else { 0 },
        indent: c.u8() % 9,
        doc: f & 128 != 0,
        container: if bits & 1 != 0 && bits & 2 != 0 { f % 5 } else { 0 },
        glue: f & 64 != 0,
        interp: f & 32 != 0 && bits & 4 != 0,
    }
}

fn tag(c: &mut Cursor, wild: bool) -> StartTag {
    let n = c.u8() as usize % if wild { 7 } else { 3 };
    let mut attrs = vec![];
    for _ in 0..n {
        let name = if wild { c.text(6, NAME_CH) } else { ["name", "note", "k_1"][c.u8() as usize % 3].to_string() };
        let name = if name.is_empty() { "n".to_string() } else { name };
        let kind = c.u8() % 4;
        let v = c.text(if wild { 10 } else { 5 }, VAL_CH);
        let val = match kind {
            0 => Val::None,
            1 => {
                let u: String = v.chars().filter(|ch| ch.is_alphanumeric() || *ch == '-' || *ch == '_').collect();
                if u.is_empty() { Val::None } else { Val::Unquoted(u) }
            }
            2 => Val::Single(v.replace('\'', "")),
            _ => Val::Double(v.replace('"', "")),
        };
        let w = c.u8();
        attrs.push(Attr {
            name,
            val,
            ws_before: WS[1 + (w as usize % (WS.len() - 1))].to_string(),
            ws_eq_l: if wild { WS[(w >> 3) as usize % WS.len()].to_string() } else { String::new() },
            ws_eq_r: if wild { WS[(w >> 5) as usize % WS.len()].to_string() } else { String::new() },
        });
    }
    StartTag { attrs, ws_end: if wild { WS[c.u8() as usize % WS.len()].to_string() } else { String::new() } }
}

pub fn decode_src_case(data: &[u8], wild: bool) -> SrcCase {
    let mut c = Cursor::new(data);
    let suffix = c.u8() as usize % SUFFIXES.len();
    let crlf = c.u8() % 8 == 0;
    let mut events = vec![];
    while !c.done() && events.len() < 40 {
        let e = match c.u8() % 8 {
            0 | 1 => Ev::Open { tag: tag(&mut c, wild), place: place(&mut c) },
            2 | 3 => Ev::Close { spelling: c.u8() % 6, place: place(&mut c) },
            4 => Ev::Code(c.u16()),
            5 => Ev::Noise { form: c.u8(), text: c.u8(), indent: c.u8() % 6 },
            6 => Ev::Decoy { tpl: c.u16(), tag: c.u8() },
            _ => Ev::Blank,
        };
        events.push(e);
    }
    SrcCase { suffix, events, crlf, echo: false, no_eol: false, bom: false, nul: false, far: false }
}

/// In-process oracle: the listing must show exactly the blocks written in comments (attributes, line, column,
/// source order). Ok(None) = checked; Ok(Some(reason)) = case outside the sound domain (discarded).
pub fn check_src_inproc(case: &SrcCase) -> Result<Option<&'static str>, String> {
    let p = prepare(case);
    if langs::healthy(p.lang.id, &p.built.text) == Some(false) {
        return Ok(Some("grammar rejects the generated source"));
    }
    let out = inproc::pipeline(&[(p.file.clone(), p.built.text.clone())], None, false);
    let listing = match out {
        Outcome::Ok { listing, .. } => listing,
        Outcome::Err(e) => return Err(format!("list failed on a well-nested file: {e}\n--- {} ---\n{}", p.file, p.built.text)),
        Outcome::Panic(m) => return Err(format!("panic: {m}\n--- {} ---\n{}", p.file, p.built.text)),
    };
    let got: Vec<(u64, u64, std::collections::BTreeMap<String, String>)> = listing
        .get(&p.file)
        .and_then(|v| v.as_array())
        .map(|a| {
            a.iter()
                .map(|b| {
                    (
                        b["line"].as_u64().unwrap_or(0),
                        b["column"].as_u64().unwrap_or(0),
                        b["attributes"].as_object().map(|m| m.iter().map(|(k, v)| (k.clone(), v.as_str().unwrap_or("").to_string())).collect()).unwrap_or_default(),
                    )
                })
                .collect()
        })
        .unwrap_or_default();
    let want: Vec<(u64, u64, std::collections::BTreeMap<String, String>)> = p.built.blocks.iter().map(|b| (b.line as u64, b.col as u64, b.attrs.clone())).collect();
    if got != want {
        return Err(format!("listing differs from the blocks written in comments\n expected {want:?}\n observed {got:?}\n--- {} ---\n{}", p.file, p.built.text));
    }
    Ok(None)
}

/// no_panic target: first byte = suffix index, rest = file text (lossy UTF-8).
pub fn no_panic_input(data: &[u8]) -> (String, String) {
    let suffix = SUFFIXES[data.first().copied().unwrap_or(0) as usize % SUFFIXES.len()].0;
    let text = String::from_utf8_lossy(data.get(1..).unwrap_or(&[])).into_owned();
    (langs::file_name("fz", suffix), text)
}
