//! Known-findings file: /verif/known_findings.txt, never written at run time.
//! Lines:  `known: property=<id> id=<Kn> <what fails>`   and   `fixed: property=<id> <commit> <what failed>`.
//! Only `known:` lines suppress anything, and only for mismatches whose structural signature (implemented
//! next to the oracle that uses it) matches; `fixed:` lines are documentation.
use std::collections::BTreeMap;
use std::sync::OnceLock;

#[derive(Debug, Clone)]
pub struct Known {
    pub property: String,
    pub id: String,
    pub what: String,
}

fn table() -> &'static BTreeMap<String, Known> {
    static T: OnceLock<BTreeMap<String, Known>> = OnceLock::new();
    T.get_or_init(|| {
        let mut m = BTreeMap::new();
        let p = crate::cli::verif_dir().join("known_findings.txt");
        if let Ok(txt) = std::fs::read_to_string(p) {
            for line in txt.lines() {
                let line = line.trim();
                if let Some(rest) = line.strip_prefix("known:") {
                    let mut it = rest.trim().splitn(3, ' ');
                    let prop = it.next().unwrap_or("").trim_start_matches("property=").to_string();
                    let id = it.next().unwrap_or("").trim_start_matches("id=").to_string();
                    let what = it.next().unwrap_or("").to_string();
                    m.insert(id.clone(), Known { property: prop, id, what });
                }
            }
        }
        m
    })
}

pub fn listed(id: &str) -> bool {
    table().contains_key(id)
}

pub fn line(id: &str, prop: &str) -> Option<String> {
    table().get(id).map(|k| format!("KNOWN-FINDING: property={} {} {}", prop, k.id, k.what))
}
