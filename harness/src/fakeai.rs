//! A recording fake chat-completion endpoint on 127.0.0.1 (plain std::net, one request per connection).
use serde_json::{Value, json};
use std::io::{Read, Write};
use std::net::{TcpListener, TcpStream};
use std::sync::atomic::{AtomicBool, AtomicUsize, Ordering};
use std::sync::{Arc, Mutex};
use std::time::Duration;

#[derive(Debug, Clone)]
pub struct Request {
    pub method: String,
    pub path: String,
    pub headers: Vec<(String, String)>,
    pub body: Vec<u8>,
}

impl Request {
    pub fn header(&self, name: &str) -> Option<&str> {
        self.headers.iter().find(|(k, _)| k.eq_ignore_ascii_case(name)).map(|(_, v)| v.as_str())
    }
    pub fn json(&self) -> Option<Value> {
        serde_json::from_slice(&self.body).ok()
    }
    /// Text of the user message of a chat-completion request.
    pub fn user_message(&self) -> Option<String> {
        let v = self.json()?;
        for m in v.get("messages")?.as_array()? {
            if m.get("role").and_then(Value::as_str) == Some("user") {
                let c = m.get("content")?;
                if let Some(s) = c.as_str() {
                    return Some(s.to_string());
                }
                // content parts form
                if let Some(parts) = c.as_array() {
                    let mut s = String::new();
                    for p in parts {
                        if let Some(t) = p.get("text").and_then(Value::as_str) {
                            s.push_str(t);
                        }
                    }
                    return Some(s);
                }
            }
        }
        None
    }
}

#[derive(Debug, Clone)]
pub enum Reply {
    /// well-formed completion with this assistant text
    Text(String),
    /// status line + content type + body
    Raw(u16, &'static str, String),
    /// 200 with a Content-Length larger than what is sent, then the connection is closed
    CloseMidBody,
    /// close the connection without answering
    CloseAtOnce,
}

pub fn completion_body(text: &str, model: &str) -> String {
    json!({
        "id": "chatcmpl-fake", "object": "chat.completion", "created": 1_700_000_000u64, "model": model,
        "choices": [{"index": 0, "message": {"role": "assistant", "content": text}, "finish_reason": "stop"}]
    })
    .to_string()
}

pub struct FakeAi {
    pub port: u16,
    pub requests: Arc<Mutex<Vec<Request>>>,
    stop: Arc<AtomicBool>,
    thread: Option<std::thread::JoinHandle<()>>,
}

impl FakeAi {
    /// `plan(request_index, request)` decides the reply; request_index counts accepted requests from 0.
    pub fn start(plan: impl Fn(usize, &Request) -> Reply + Send + Sync + 'static) -> FakeAi {
        let listener = TcpListener::bind(("127.0.0.1", 0)).expect("bind fake endpoint");
        let port = listener.local_addr().unwrap().port();
        listener.set_nonblocking(true).unwrap();
        let requests = Arc::new(Mutex::new(Vec::new()));
        let stop = Arc::new(AtomicBool::new(false));
        let counter = Arc::new(AtomicUsize::new(0));
        let plan = Arc::new(plan);
        let (rq, st) = (requests.clone(), stop.clone());
        let thread = std::thread::spawn(move || {
            let mut handlers = vec![];
            while !st.load(Ordering::Relaxed) {
                match listener.accept() {
                    Ok((stream, _)) => {
                        let (rq, counter, plan) = (rq.clone(), counter.clone(), plan.clone());
                        handlers.push(std::thread::spawn(move || handle(stream, &rq, &counter, &*plan)));
                    }
                    Err(e) if e.kind() == std::io::ErrorKind::WouldBlock => std::thread::sleep(Duration::from_micros(300)),
                    Err(_) => break,
                }
            }
            for h in handlers {
                let _ = h.join();
            }
        });
        FakeAi { port, requests, stop, thread: Some(thread) }
    }

    pub fn url(&self) -> String {
        format!("http://127.0.0.1:{}/v1", self.port)
    }

    pub fn seen(&self) -> Vec<Request> {
        self.requests.lock().unwrap().clone()
    }
}

impl Drop for FakeAi {
    fn drop(&mut self) {
        self.stop.store(true, Ordering::Relaxed);
        if let Some(t) = self.thread.take() {
            let _ = t.join();
        }
    }
}

fn handle(mut s: TcpStream, rq: &Mutex<Vec<Request>>, counter: &AtomicUsize, plan: &(dyn Fn(usize, &Request) -> Reply + Send + Sync)) {
    let _ = s.set_nonblocking(false);
    let _ = s.set_read_timeout(Some(Duration::from_secs(10)));
    let mut buf = Vec::new();
    let mut tmp = [0u8; 8192];
    let header_end = loop {
        if let Some(p) = find(&buf, b"\r\n\r\n") {
            break p;
        }
        match s.read(&mut tmp) {
            Ok(0) | Err(_) => return,
            Ok(n) => buf.extend_from_slice(&tmp[..n]),
        }
    };
    let head = String::from_utf8_lossy(&buf[..header_end]).into_owned();
    let mut lines = head.split("\r\n");
    let start = lines.next().unwrap_or("");
    let mut it = start.split(' ');
    let method = it.next().unwrap_or("").to_string();
    let path = it.next().unwrap_or("").to_string();
    let headers: Vec<(String, String)> = lines.filter_map(|l| l.split_once(':').map(|(k, v)| (k.trim().to_string(), v.trim().to_string()))).collect();
    let clen: usize = headers.iter().find(|(k, _)| k.eq_ignore_ascii_case("content-length")).and_then(|(_, v)| v.parse().ok()).unwrap_or(0);
    let mut body = buf[header_end + 4..].to_vec();
    while body.len() < clen {
        match s.read(&mut tmp) {
            Ok(0) | Err(_) => break,
            Ok(n) => body.extend_from_slice(&tmp[..n]),
        }
    }
    let req = Request { method, path, headers, body };
    let idx = counter.fetch_add(1, Ordering::SeqCst);
    let model = req.json().and_then(|v| v.get("model").and_then(Value::as_str).map(String::from)).unwrap_or_else(|| "m".into());
    let reply = plan(idx, &req);
    rq.lock().unwrap().push(req);
    let send = |s: &mut TcpStream, status: u16, ctype: &str, body: &[u8], claim: usize| {
        let reason = match status {
            200 => "OK",
            400 => "Bad Request",
            401 => "Unauthorized",
            404 => "Not Found",
            _ => "Status",
        };
        let head = format!("HTTP/1.1 {status} {reason}\r\nContent-Type: {ctype}\r\nContent-Length: {claim}\r\nConnection: close\r\n\r\n");
        let _ = s.write_all(head.as_bytes());
        let _ = s.write_all(body);
        let _ = s.flush();
    };
    match reply {
        Reply::Text(t) => {
            let b = completion_body(&t, &model);
            send(&mut s, 200, "application/json", b.as_bytes(), b.len());
        }
        Reply::Raw(status, ctype, b) => send(&mut s, status, ctype, b.as_bytes(), b.len()),
        Reply::CloseMidBody => {
            let b = completion_body("OK", &model);
            send(&mut s, 200, "application/json", &b.as_bytes()[..b.len() / 2], b.len());
        }
        Reply::CloseAtOnce => {}
    }
    let _ = s.shutdown(std::net::Shutdown::Both);
}

fn find(h: &[u8], n: &[u8]) -> Option<usize> {
    h.windows(n.len()).position(|w| w == n)
}
