//! Source builder: renders a flat event list (tags with placement, code, noise comments, decoys) into a
//! source file of a given language **and** the ground truth known by construction: every block's attributes,
//! the line / byte column of its `<` and `>`, the span of the comments holding its tags and its exact content.
use crate::langs::Lang;
use serde::{Deserialize, Serialize};
use std::collections::BTreeMap;

#[derive(Clone, Debug, Serialize, Deserialize, Hash, PartialEq, Eq)]
pub enum Val {
    None,
    Unquoted(String),
    Single(String),
    Double(String),
}

#[derive(Clone, Debug, Serialize, Deserialize, Hash, PartialEq, Eq)]
pub struct Attr {
    pub name: String,
    pub val: Val,
    /// whitespace before the name (made non-empty by the renderer)
    pub ws_before: String,
    pub ws_eq_l: String,
    pub ws_eq_r: String,
}

impl Attr {
    pub fn simple(name: &str, value: &str) -> Attr {
        Attr { name: name.into(), val: Val::Double(value.into()), ws_before: " ".into(), ws_eq_l: String::new(), ws_eq_r: String::new() }
    }
    pub fn bare(name: &str) -> Attr {
        Attr { name: name.into(), val: Val::None, ws_before: " ".into(), ws_eq_l: String::new(), ws_eq_r: String::new() }
    }
}

#[derive(Clone, Debug, Serialize, Deserialize, Hash, PartialEq, Eq, Default)]
pub struct StartTag {
    pub attrs: Vec<Attr>,
    pub ws_end: String,
}

impl StartTag {
    /// name -> value, last duplicate wins, valueless -> ""
    pub fn map(&self) -> BTreeMap<String, String> {
        let mut m = BTreeMap::new();
        for a in &self.attrs {
            let v = match &a.val {
                Val::None => String::new(),
                Val::Unquoted(v) | Val::Single(v) | Val::Double(v) => v.clone(),
            };
            m.insert(a.name.clone(), v);
        }
        m
    }
}

pub const END_SPELLINGS: &[&str] = &["</block>", "</ block >", "< / block>", "</block >", "< /block>", "</\tblock>"];

#[derive(Clone, Copy, Debug, Serialize, Deserialize, Hash, PartialEq, Eq)]
pub enum Form {
    /// line comment with the language's opener #i
    Line(usize),
    /// block comment
    Block,
    /// Markdown link-reference definition `[//]: # (…)` with title delimiter 0 `()`, 1 `""`, 2 `''`
    MdRef(u8),
    /// Markdown HTML-comment block
    MdHtml,
}

pub fn forms(lang: &Lang) -> Vec<Form> {
    let mut f: Vec<Form> = (0..lang.line.len().min(2)).map(Form::Line).collect();
    if lang.block.is_some() {
        f.push(Form::Block);
    }
    if lang.markdown {
        f.extend([Form::MdRef(0), Form::MdRef(1), Form::MdRef(2), Form::MdHtml]);
    }
    // (third and later line-comment openers come last: stored cases keep their meaning)
    f.extend((2..lang.line.len()).map(Form::Line));
    f
}

#[derive(Clone, Debug, Serialize, Deserialize, Hash, PartialEq, Eq, Default)]
pub struct Place {
    pub form: u8,
    /// share the previous tag's comment (when the previous event was a tag too)
    pub join: bool,
    /// code before the comment on the same line (where the language allows it)
    pub lead: bool,
    /// code after a block comment on the same line
    pub trail: bool,
    /// noise text around the tag inside the comment (0 = none)
    pub pre: u8,
    pub post: u8,
    /// multi-line capable forms: newline before / after the tag inside the comment
    pub nl_before: bool,
    pub nl_after: bool,
    pub star: bool,
    pub indent: u8,
    /// C-style block comments: open with `/**` (doc comment) instead of `/*`
    #[serde(default)]
    pub doc: bool,
    /// Markdown comment forms on one line: put the comment inside a container (0 none, 1 `> `, 2 `- `, 3 `1. `, 4 `> - `)
    #[serde(default)]
    pub container: u8,
    /// no separating blank between this tag (and its noise) and what precedes it in the same comment
    /// (`</block><block>`, `text<block>`)
    #[serde(default)]
    pub glue: bool,
    /// a one-line block comment placed inside the interpolated part of a string literal (languages that have one)
    #[serde(default)]
    pub interp: bool,
}

#[derive(Clone, Debug, Serialize, Deserialize, Hash, PartialEq, Eq)]
pub enum Ev {
    Open { tag: StartTag, place: Place },
    Close { spelling: u8, place: Place },
    Code(u16),
    Noise { form: u8, text: u8, indent: u8 },
    Decoy { tpl: u16, tag: u8 },
    Blank,
    /// a valid line of the language carrying `id:<v>` in the middle, after multi-byte text (regex-key rules)
    KeyLine(u16),
}

pub const NOISE: &[&str] = &[
    "",
    "plain words",
    "a < b and c > d",
    "<b>bold</b>",
    "<div class=\"x\">",
    "-> arrow <-",
    "x << 2",
    "</p> closes",
    "TODO: fix this",
    "see <blockquote> here",
    "<block/>",
    "<Block>",
    "<BLOCK name=\"x\">",
    "< block>",
    "<blocks>",
    "<block-x>",
    "</blockx>",
    "<block name=\"a\"/>",
    "é日本語 text 😀",
    "100% <= 200%",
    "</ blocks >",
    "<blockquote cite='x'>",
    // half-written look-alikes whose quote is closed (if at all) by a quote of a LATER tag in the same comment:
    // never a tag themselves (a quote character can never start or be part of an attribute name), and the
    // tags after them are still found
    "<block note=\"half written",
    "see <block x='unfinished",
];

/// Look-alikes that are only safe as the last thing of their own comment (an unclosed quote followed by a
/// later quote character in the same comment would legitimately form a tag).
pub const NOISE_UNCLOSED: &[&str] = &["<block name=\"never closed>", "<block name='x>", "<block", "<block name", "<block name=", "text <block a=\"1\" b='2>"];

pub const DECOY_TAGS: &[&str] = &["<block name=decoy>", "</block>", "<block>", "<block keep-sorted>", "</ block >"];

#[derive(Clone, Debug, Serialize, Deserialize)]
pub struct TruthBlock {
    pub attrs: BTreeMap<String, String>,
    /// 1-based line / byte column of '<' and of '>' of the start tag
    pub line: usize,
    pub col: usize,
    pub end_line: usize,
    pub end_col: usize,
    /// byte span of the start tag in the file
    pub tag_span: (usize, usize),
    /// byte spans of the comments holding the start and the end tag
    pub start_comment: (usize, usize),
    pub end_comment: (usize, usize),
    pub same_comment: bool,
    pub content: String,
    /// the start comment's form eats its line terminator (content start unspecified by one terminator)
    pub lenient_start: bool,
    /// the end comment's form may include its own indentation in the comment node (content end unspecified by that indentation)
    pub lenient_end: bool,
    pub depth: usize,
    /// the start tag itself spans several lines / sits on a later line of its comment
    pub multiline_tag: bool,
    pub tag_on_later_line: bool,
    pub comment_continues_after_tag_line: bool,
}

#[derive(Clone, Debug)]
pub struct Built {
    pub text: String,
    pub blocks: Vec<TruthBlock>,
    pub n_comments: usize,
    pub n_decoys: usize,
    pub n_multiline_comments: usize,
    pub n_joined: usize,
    pub balanced: bool,
    pub n_tags: usize,
}

struct TagRec {
    start: bool,
    tag: Option<StartTag>,
    off: usize,
    len: usize,
    comment: usize,
}

struct CommentRec {
    start: usize,
    end: usize,
    lenient: bool,
    lenient_indent: bool,
}

pub fn line_col(text: &str, off: usize) -> (usize, usize) {
    let before = &text.as_bytes()[..off];
    let line = 1 + before.iter().filter(|b| **b == b'\n').count();
    let col = match before.iter().rposition(|b| *b == b'\n') {
        Some(p) => off - p,
        None => off + 1,
    };
    (line, col)
}

/// Removes what the host comment form cannot hold from free text.
pub fn sanitise_text(lang: &Lang, form: Form, s: &str) -> String {
    let mut t = s.replace(['\n', '\r'], " ");
    match form {
        Form::Line(_) => {}
        Form::Block => {
            let (open, close) = lang.block.unwrap();
            if close == "-->" {
                while t.contains("--") {
                    t = t.replace("--", "-~");
                }
                // a comment body must not start with '>' or '->' ; the renderer always puts a space first
            } else {
                while t.contains(close) {
                    t = t.replace(close, "*~/");
                }
                if lang.nests {
                    while t.contains(open) {
                        t = t.replace(open, "/~*");
                    }
                }
            }
        }
        // (backslashes stay: CommonMark only treats a backslash before ASCII punctuation as an escape, and
        // the generators never put one there)
        Form::MdRef(0) => t = t.replace(['(', ')'], "~"),
        Form::MdRef(1) => t = t.replace('"', "~"),
        Form::MdRef(_) => t = t.replace('\'', "~"),
        Form::MdHtml => {
            while t.contains("--") {
                t = t.replace("--", "-~");
            }
        }
    }
    t
}

/// Inside a Markdown `( … )` title a quoted attribute value keeps its parentheses as the backslash escapes
/// `\(` / `\)` CommonMark allows there; the raw text, backslashes included, is the value blockwatch sees.
/// (check-lua-pattern values keep their own backslashes, so their parentheses are replaced as in free text.)
fn md_paren_escape(form: Form, name: &str, v: &str, sanitise: impl Fn(&str) -> String) -> String {
    if form == Form::MdRef(0) && name != "check-lua-pattern" {
        sanitise(&v.replace('(', "\u{1}").replace(')', "\u{2}")).replace('\u{1}', "\\(").replace('\u{2}', "\\)")
    } else {
        sanitise(v)
    }
}

/// Adapts a start tag to the host form (values lose what the host cannot hold; quote style may change for
/// Markdown titles). The adapted tag is the ground truth.
pub fn sanitise_tag(lang: &Lang, form: Form, tag: &StartTag, multiline_ok: bool) -> StartTag {
    let mut t = tag.clone();
    let fix_ws = |w: &str, min1: bool| -> String {
        let mut w: String = w.chars().filter(|c| matches!(c, ' ' | '\t' | '\n')).collect();
        if !multiline_ok {
            w = w.replace('\n', " ");
        }
        if min1 && w.is_empty() {
            w.push(' ');
        }
        w
    };
    for a in &mut t.attrs {
        if matches!(form, Form::MdRef(_)) && a.name != "check-lua-pattern" {
            // a backslash before punctuation is an escape in a CommonMark title (and one before the closing
            // delimiter un-closes it): keep the generated Markdown definitions valid
            a.val = match &a.val {
                Val::Single(v) => Val::Single(v.replace('\\', "~")),
                Val::Double(v) => Val::Double(v.replace('\\', "~")),
                o => o.clone(),
            };
        }
        let dash_host = form == Form::MdHtml || (form == Form::Block && lang.block.map(|b| b.1) == Some("-->"));
        if dash_host {
            // `--` (let alone `-->`) cannot occur inside an XML/HTML comment
            while a.name.contains("--") {
                a.name = a.name.replace("--", "-x");
            }
            if let Val::Unquoted(v) = &a.val {
                let mut v = v.clone();
                while v.contains("--") {
                    v = v.replace("--", "-x");
                }
                a.val = Val::Unquoted(v);
            }
        }
        a.ws_before = fix_ws(&a.ws_before, true);
        a.ws_eq_l = fix_ws(&a.ws_eq_l, false);
        a.ws_eq_r = fix_ws(&a.ws_eq_r, false);
        if matches!(form, Form::MdRef(_)) {
            // inside a Markdown title a line break is only kept in front of an attribute whose name starts with an
            // ASCII letter: a continuation line starting with `>`, `=`, a quote, a digit, `-` … may be taken for the
            // start of another Markdown block (by CommonMark or by the grammar's approximation of it)
            a.ws_eq_l = a.ws_eq_l.replace('\n', " ");
            a.ws_eq_r = a.ws_eq_r.replace('\n', " ");
            if !a.name.starts_with(|c: char| c.is_ascii_alphabetic()) {
                a.ws_before = a.ws_before.replace('\n', " ");
            }
        }
        a.val = match &a.val {
            Val::None => Val::None,
            Val::Unquoted(v) => Val::Unquoted(v.clone()),
            Val::Single(v) => {
                let v = md_paren_escape(form, &a.name, v, |v| sanitise_text(lang, form, v)).replace('\'', "~");
                match form {
                    Form::MdRef(2) => Val::Double(v.replace('"', "~")),
                    _ => Val::Single(v),
                }
            }
            Val::Double(v) => {
                let v = md_paren_escape(form, &a.name, v, |v| sanitise_text(lang, form, v)).replace('"', "~");
                match form {
                    Form::MdRef(1) => Val::Single(v.replace('\'', "~")),
                    _ => Val::Double(v),
                }
            }
        };
        if a.val == Val::None {
            // a bare attribute followed by `=` would change meaning; whitespace around a missing `=` is dropped
            a.ws_eq_l.clear();
            a.ws_eq_r.clear();
        }
    }
    t.ws_end = fix_ws(&t.ws_end, false);
    if matches!(form, Form::MdRef(_)) {
        t.ws_end = t.ws_end.replace('\n', " ");
    }
    t
}

pub fn render_start_tag(t: &StartTag) -> String {
    let mut s = String::from("<block");
    for a in &t.attrs {
        s.push_str(&a.ws_before);
        s.push_str(&a.name);
        match &a.val {
            Val::None => {}
            Val::Unquoted(v) => {
                s.push_str(&a.ws_eq_l);
                s.push('=');
                s.push_str(&a.ws_eq_r);
                s.push_str(v);
            }
            Val::Single(v) => {
                s.push_str(&a.ws_eq_l);
                s.push('=');
                s.push_str(&a.ws_eq_r);
                s.push('\'');
                s.push_str(v);
                s.push('\'');
            }
            Val::Double(v) => {
                s.push_str(&a.ws_eq_l);
                s.push('=');
                s.push_str(&a.ws_eq_r);
                s.push('"');
                s.push_str(v);
                s.push('"');
            }
        }
    }
    s.push_str(&t.ws_end);
    s.push('>');
    s
}

enum Part {
    Text(String),
    Start(StartTag),
    End(usize),
    Newline,
    /// the next part follows without a separating blank
    Glue,
}

struct CommentSeg {
    form: Form,
    indent: usize,
    lead: bool,
    trail: bool,
    star: bool,
    /// Markdown definitions: a destination holding characters of more than one byte
    mb_dest: bool,
    doc: bool,
    container: u8,
    /// the (one-line) block comment sits inside the interpolated part of a string literal
    interp: bool,
    parts: Vec<Part>,
}

enum Seg {
    Raw(String),
    Comment(CommentSeg),
}

fn fill(tpl: &str, n: usize) -> String {
    tpl.replace("{n}", &n.to_string())
}

/// A valid line of the language that carries the text `é日 id:<v> t` (in a trailing comment where the language
/// has line comments, else in markup / a block comment).
pub fn key_line(lang: &Lang, n: usize, v: u16) -> String {
    let payload = format!("é日 id:{} t", v % 50);
    if lang.markdown {
        return format!("text {n} {payload}");
    }
    match lang.id {
        "html" => format!("<p>{payload}</p>"),
        "xml" => format!("<i>{payload}</i>"),
        "css" => format!("/* {payload} */"),
        "make" | "gomod" => format!("{} {payload}", lang.line[0]),
        _ => {
            let code = lang.code.iter().find(|c| !c.contains('\n')).unwrap().replace("{n}", &n.to_string());
            if lang.trailing_line { format!("{code} {} {payload}", lang.line[0]) } else { format!("{} {payload}", lang.line[0]) }
        }
    }
}

/// Balances the event list: a Close without an open block is dropped, missing Closes are appended.
pub fn balance(events: &[Ev]) -> Vec<Ev> {
    let mut depth = 0usize;
    let mut out = Vec::with_capacity(events.len() + 4);
    for e in events {
        match e {
            Ev::Open { .. } => {
                depth += 1;
                out.push(e.clone());
            }
            Ev::Close { .. } => {
                if depth > 0 {
                    depth -= 1;
                    out.push(e.clone());
                }
            }
            other => out.push(other.clone()),
        }
    }
    for _ in 0..depth {
        out.push(Ev::Close { spelling: 0, place: Place::default() });
    }
    out
}

impl Built {
    /// The same file behind a UTF-8 byte-order mark: every byte offset moves by three, and so do the byte
    /// columns on the first line.
    pub fn with_bom(mut self) -> Built {
        const N: usize = 3;
        self.text.insert(0, '\u{feff}');
        for b in &mut self.blocks {
            b.tag_span = (b.tag_span.0 + N, b.tag_span.1 + N);
            b.start_comment = (b.start_comment.0 + N, b.start_comment.1 + N);
            b.end_comment = (b.end_comment.0 + N, b.end_comment.1 + N);
            if b.line == 1 {
                b.col += N;
            }
            if b.end_line == 1 {
                b.end_col += N;
            }
        }
        self
    }

    /// The same file below `n` empty lines: every line number moves by `n` (far beyond 65 535 when asked so),
    /// every byte offset by the bytes of those lines.
    pub fn with_blank_prefix(mut self, n: usize, crlf: bool) -> Built {
        let nl = if crlf { "\r\n" } else { "\n" };
        let bytes = n * nl.len();
        self.text.insert_str(0, &nl.repeat(n));
        for b in &mut self.blocks {
            b.tag_span = (b.tag_span.0 + bytes, b.tag_span.1 + bytes);
            b.start_comment = (b.start_comment.0 + bytes, b.start_comment.1 + bytes);
            b.end_comment = (b.end_comment.0 + bytes, b.end_comment.1 + bytes);
            b.line += n;
            b.end_line += n;
        }
        self
    }
}

/// Balances the events first: the result is a well-nested file with its ground truth.
pub fn build(lang: &Lang, events: &[Ev], crlf: bool) -> Built {
    build_raw(lang, &balance(events), crlf)
}

/// Renders the events as they are; when the tags do not balance, `balanced` is false and `blocks` is empty.
pub fn build_raw(lang: &Lang, events: &[Ev], crlf: bool) -> Built {
    let fs = forms(lang);
    assert!(!fs.is_empty());
    let events: Vec<Ev> = events.to_vec();
    let mut segs: Vec<Seg> = vec![];
    let mut counter = 0usize;
    let mut prev_was_tag = false;
    let mut n_decoys = 0;
    let mut n_joined = 0;
    for e in &events {
        match e {
            Ev::Open { place, .. } | Ev::Close { place, .. } => {
                let mut form = fs[place.form as usize % fs.len()];
                let can_join = prev_was_tag && place.join;
                let part_for = |form: Form| -> Vec<Part> {
                    let multi = matches!(form, Form::Block | Form::MdHtml);
                    let mut ps = vec![];
                    if place.glue {
                        ps.push(Part::Glue);
                    }
                    if place.pre != 0 {
                        ps.push(Part::Text(sanitise_text(lang, form, NOISE[place.pre as usize % NOISE.len()])));
                    }
                    if multi && place.nl_before {
                        ps.push(Part::Newline);
                    }
                    if place.glue {
                        ps.push(Part::Glue);
                    }
                    match e {
                        // (a Markdown definition's title may run over several lines, so its tags may too)
                        Ev::Open { tag, .. } => ps.push(Part::Start(sanitise_tag(lang, form, tag, multi || matches!(form, Form::MdRef(_))))),
                        Ev::Close { spelling, .. } => ps.push(Part::End(*spelling as usize % END_SPELLINGS.len())),
                        _ => unreachable!(),
                    }
                    if place.glue {
                        ps.push(Part::Glue);
                    }
                    if multi && place.nl_after {
                        ps.push(Part::Newline);
                    }
                    if place.post != 0 {
                        ps.push(Part::Text(sanitise_text(lang, form, NOISE[place.post as usize % NOISE.len()])));
                    }
                    ps
                };
                if can_join && let Some(Seg::Comment(c)) = segs.last_mut() {
                    form = c.form;
                    c.parts.extend(part_for(form));
                    n_joined += 1;
                } else {
                    let has_inline = !lang.inline_code.is_empty();
                    let lead = place.lead
                        && match form {
                            Form::Line(_) => lang.trailing_line,
                            Form::Block => has_inline,
                            _ => false,
                        };
                    // newline-terminated statements: never two statements on one line
                    let one_stmt_per_line = matches!(lang.id, "go" | "swift" | "kotlin");
                    let trail = place.trail && ((form == Form::Block && has_inline && !(lead && one_stmt_per_line)) || form == Form::MdHtml);
                    let interp = place.interp && form == Form::Block && crate::langs::interp_wrapper(lang.id).is_some();
                    segs.push(Seg::Comment(CommentSeg { form, indent: (place.indent % 9) as usize, lead: lead && !interp, trail: trail && !interp, star: place.star && lang.star, mb_dest: place.star && lang.markdown, doc: place.doc && (lang.star || lang.markdown || lang.id == "ruby") && !interp, container: place.container % 5, interp, parts: part_for(form) }));
                }
                prev_was_tag = true;
            }
            Ev::Code(i) => {
                counter += 1;
                segs.push(Seg::Raw(fill(lang.code[*i as usize % lang.code.len()], counter)));
                prev_was_tag = false;
            }
            Ev::Noise { form, text, indent } => {
                let form = fs[*form as usize % fs.len()];
                let k = *text as usize % (NOISE.len() + NOISE_UNCLOSED.len());
                let raw = if k < NOISE.len() { NOISE[k] } else { NOISE_UNCLOSED[k - NOISE.len()] };
                let t = sanitise_text(lang, form, raw);
                segs.push(Seg::Comment(CommentSeg { form, indent: (*indent % 9) as usize, lead: false, trail: false, star: false, mb_dest: false, doc: false, container: 0, interp: false, parts: vec![Part::Text(t)] }));
                prev_was_tag = false;
            }
            Ev::Decoy { tpl, tag } => {
                if lang.decoys.is_empty() {
                    continue;
                }
                counter += 1;
                n_decoys += 1;
                let t = lang.decoys[*tpl as usize % lang.decoys.len()];
                let d = DECOY_TAGS[*tag as usize % DECOY_TAGS.len()];
                segs.push(Seg::Raw(fill(t, counter).replace("{}", d)));
                prev_was_tag = false;
            }
            Ev::Blank => {
                segs.push(Seg::Raw(String::new()));
                prev_was_tag = false;
            }
            Ev::KeyLine(v) => {
                counter += 1;
                segs.push(Seg::Raw(key_line(lang, counter, *v)));
                prev_was_tag = false;
            }
        }
    }

    // render
    let nl = if crlf { "\r\n" } else { "\n" };
    let mut out = String::new();
    out.push_str(&lang.header.replace('\n', nl));
    let mut tags: Vec<TagRec> = vec![];
    let mut comments: Vec<CommentRec> = vec![];
    let mut n_multiline = 0;
    for seg in &segs {
        match seg {
            Seg::Raw(s) => {
                if lang.markdown && !out.ends_with(&format!("{nl}{nl}")) {
                    out.push_str(nl);
                }
                out.push_str(&s.replace('\n', nl));
                out.push_str(nl);
                if lang.markdown {
                    out.push_str(nl);
                }
            }
            Seg::Comment(c) => {
                let one_line = !c.parts.iter().any(|p| match p {
                    Part::Newline => true,
                    Part::Start(t) => render_start_tag(t).contains('\n'),
                    _ => false,
                });
                let md_form = matches!(c.form, Form::MdRef(_) | Form::MdHtml);
                // Ruby's `=begin` / `=end` comments: both delimiters alone at the very start of their own lines
                let own_lines = c.form == Form::Block && lang.block.is_some_and(|(o, _)| o == "=begin");
                // a Markdown comment inside a block quote / list item: marker on the first line, the
                // container's continuation prefix on the following ones
                let in_container = md_form && c.container != 0;
                let ind = if own_lines {
                    String::new()
                } else if in_container {
                    ["", "> ", "- ", "1. ", "> - "][c.container as usize].to_string()
                } else if !md_form && !c.lead && c.indent == 8 && lang.star {
                    // tab indentation (languages with `*`-decorated block comments: C family, Java, JS/TS, Rust, Go, …)
                    "\t".to_string()
                } else {
                    " ".repeat(if md_form { c.indent % 4 } else if c.lead { 0 } else { c.indent })
                };
                let cont_ind = if in_container { ["", "> ", "  ", "   ", ">   "][c.container as usize].to_string() } else { ind.clone() };
                if lang.markdown && !out.ends_with(&format!("{nl}{nl}")) {
                    out.push_str(nl);
                }
                out.push_str(&ind);
                if c.lead {
                    counter += 1;
                    let code = match c.form {
                        Form::Line(_) => lang.code.iter().find(|t| !t.contains('\n')).copied().unwrap_or(""),
                        _ => lang.inline_code[counter % lang.inline_code.len()],
                    };
                    out.push_str(&fill(code, counter));
                    out.push(' ');
                }
                // (a later tag joined into this comment may have made it multi-line: then it stays ordinary)
                let interp = if c.interp && one_line { crate::langs::interp_wrapper(lang.id) } else { None };
                if let Some((before, _)) = interp {
                    counter += 1;
                    out.push_str(&fill(before, counter));
                    out.push(' ');
                }
                let cstart = out.len();
                let (open, close): (String, String) = match c.form {
                    Form::Line(i) => (lang.line[i].to_string(), String::new()),
                    Form::Block => {
                        let (o, cl) = lang.block.unwrap();
                        (if c.doc && o == "/*" { "/**".to_string() } else { o.to_string() }, cl.to_string())
                    }
                    // `doc` on a Markdown definition: the title sits on the line after the destination
                    Form::MdRef(k) => {
                        let (o, cl) = [("(", ")"), ("\"", "\""), ("'", "'")][k.min(2) as usize];
                        let split_title = c.doc && !in_container;
                        // (`star` in a Markdown file, one-line head: a destination with characters of more than one byte)
                        let dest = if c.mb_dest && !split_title { "#résumé-注" } else { "#" };
                        (if split_title { format!("[//]: #{nl}{ind}  {o}") } else { format!("[//]: {dest} {o}") }, cl.to_string())
                    }
                    Form::MdHtml => ("<!--".into(), "-->".into()),
                };
                out.push_str(&open);
                let idx = comments.len();
                let mut had_nl = false;
                let md_ref = matches!(c.form, Form::MdRef(_));
                // (`doc` on a Ruby `=begin` comment: its text starts on the marker's own line, `=begin <block …>`)
                if own_lines && !c.doc {
                    out.push_str(nl);
                } else if !md_ref {
                    out.push(' ');
                }
                // (continuation lines of a Markdown definition are indented by five blanks: with fewer, a line starting with
                // `>`, `-`, `#` or `1.` would open a new Markdown block instead of continuing the title)
                let cont = if own_lines { nl.to_string() } else { format!("{nl}{cont_ind}{}", if c.star { " * " } else if md_ref { "     " } else { "   " }) };
                let mut first = true;
                for p in &c.parts {
                    match p {
                        Part::Glue => {
                            first = true;
                        }
                        Part::Newline => {
                            out.push_str(&cont);
                            had_nl = true;
                            first = true;
                        }
                        Part::Text(t) => {
                            if !first {
                                out.push(' ');
                            }
                            out.push_str(t);
                            first = false;
                        }
                        Part::Start(tag) => {
                            if !first {
                                out.push(' ');
                            }
                            let mut txt = render_start_tag(tag);
                            if txt.contains('\n') {
                                had_nl = true;
                                // two line breaks in a row: a completely EMPTY line inside the tag (no continuation prefix on
                                // it) — where the comment form can hold one (not a Markdown definition's title, not inside a
                                // Markdown container, whose prefix every line needs)
                                if md_ref || in_container {
                                    while txt.contains("\n\n") {
                                        txt = txt.replace("\n\n", "\n");
                                    }
                                }
                                txt = txt.replace("\n\n", "\u{1}").replace('\n', &cont).replace('\u{1}', &format!("{nl}{cont}"));
                            }
                            tags.push(TagRec { start: true, tag: Some(tag.clone()), off: out.len(), len: txt.len(), comment: idx });
                            out.push_str(&txt);
                            first = false;
                        }
                        Part::End(sp) => {
                            if !first {
                                out.push(' ');
                            }
                            let txt = END_SPELLINGS[*sp];
                            tags.push(TagRec { start: false, tag: None, off: out.len(), len: txt.len(), comment: idx });
                            out.push_str(txt);
                            first = false;
                        }
                    }
                }
                if close == "-->" {
                    // glued noise texts (`<-` + `-> arrow`) can form `--`, which would end an XML/HTML comment
                    // early: defuse it in place (tags and values never hold `--`, so only noise text changes)
                    let body_from = cstart + open.len();
                    while let Some(p) = out[body_from..].find("--").map(|i| i + body_from) {
                        out.replace_range(p + 1..p + 2, "~");
                    }
                }
                if !close.is_empty() {
                    if own_lines {
                        out.push_str(nl);
                    } else if !md_ref {
                        out.push(' ');
                    }
                    out.push_str(&close);
                }
                // A half-written look-alike whose quote is closed by a later quote of the same kind at a token
                // boundary (followed by white space, `>` or the comment's end) could legitimately be read as a
                // tag: defuse it by construction (same length, so no offset moves).
                // (right to left: defusing a later look-alike changes which quote closes an earlier one)
                let mut halves: Vec<(usize, usize)> = vec![];
                for half in ["<block note=\"half written", "<block x='unfinished"] {
                    let mut from = cstart;
                    while let Some(p) = out[from..].find(half).map(|i| i + from) {
                        halves.push((p, p + half.find(['"', '\'']).unwrap()));
                        from = p + half.len();
                    }
                }
                halves.sort();
                for &(_, qpos) in halves.iter().rev() {
                    let q = out.as_bytes()[qpos] as char;
                    let ambiguous = match out[qpos + 1..].find(q).map(|i| i + qpos + 1) {
                        None => false,
                        Some(r) => out[r + 1..].chars().next().is_none_or(|c| c.is_whitespace() || c == '>'),
                    };
                    if ambiguous {
                        out.replace_range(qpos..qpos + 1, "~");
                    }
                }
                let cend = out.len();
                if had_nl {
                    n_multiline += 1;
                }
                let lenient = match c.form {
                    Form::Line(i) => lang.line_comment_eats_newline.contains(&lang.line[i]),
                    Form::MdRef(_) => true,
                    Form::Block => own_lines,
                    _ => false,
                };
                comments.push(CommentRec { start: cstart, end: cend, lenient, lenient_indent: matches!(c.form, Form::MdRef(_)) });
                if let Some((_, after)) = interp {
                    out.push(' ');
                    out.push_str(after);
                }
                if c.trail {
                    counter += 1;
                    out.push(' ');
                    if c.form == Form::MdHtml {
                        // text on the closing line of an HTML comment block: content that starts on the tag's line
                        out.push_str(&format!("tail{counter} text"));
                    } else {
                        out.push_str(&fill(lang.inline_code[counter % lang.inline_code.len()], counter));
                    }
                }
                out.push_str(nl);
                if lang.markdown {
                    out.push_str(nl);
                }
            }
        }
    }
    out.push_str(&lang.footer.replace('\n', nl));

    // ground truth by stack pairing (innermost first)
    let mut stack: Vec<usize> = vec![];
    let mut balanced = true;
    let mut blocks: Vec<(usize, TruthBlock)> = vec![];
    for (ti, t) in tags.iter().enumerate() {
        if t.start {
            stack.push(ti);
        } else {
            let Some(si) = stack.pop() else {
                balanced = false;
                break;
            };
            let s = &tags[si];
            let (line, col) = line_col(&out, s.off);
            let (end_line, end_col) = line_col(&out, s.off + s.len - 1);
            let sc = &comments[s.comment];
            let ec = &comments[t.comment];
            let same = s.comment == t.comment;
            let content = if same { String::new() } else { out[sc.end..ec.start].to_string() };
            let (cs_line, _) = line_col(&out, sc.start);
            let (ce_line, _) = line_col(&out, sc.end.saturating_sub(1).max(sc.start));
            blocks.push((
                s.off,
                TruthBlock {
                    attrs: s.tag.as_ref().unwrap().map(),
                    line,
                    col,
                    end_line,
                    end_col,
                    tag_span: (s.off, s.off + s.len),
                    start_comment: (sc.start, sc.end),
                    end_comment: (ec.start, ec.end),
                    same_comment: same,
                    content,
                    lenient_start: sc.lenient,
                    lenient_end: ec.lenient_indent,
                    depth: stack.len(),
                    multiline_tag: end_line != line,
                    tag_on_later_line: line != cs_line,
                    comment_continues_after_tag_line: ce_line != end_line,
                },
            ));
        }
    }
    if !stack.is_empty() {
        balanced = false;
    }
    if !balanced {
        blocks.clear();
    }
    blocks.sort_by_key(|(o, _)| *o);
    Built { text: out, blocks: blocks.into_iter().map(|(_, b)| b).collect(), n_comments: comments.len(), n_decoys, n_multiline_comments: n_multiline, n_joined, balanced, n_tags: tags.len() }
}

// ---------------------------------------------------------------------------------------------
// proptest strategies
// ---------------------------------------------------------------------------------------------
use proptest::prelude::*;

pub fn place_strategy() -> BoxedStrategy<Place> {
    (
        any::<u8>(),
        proptest::bool::weighted(0.2),
        proptest::bool::weighted(0.2),
        proptest::bool::weighted(0.2),
        prop_oneof![3 => Just(0u8), 1 => 1u8..(NOISE.len() as u8)],
        prop_oneof![3 => Just(0u8), 1 => 1u8..(NOISE.len() as u8)],
        proptest::bool::weighted(0.25),
        proptest::bool::weighted(0.25),
        any::<bool>(),
        prop_oneof![3 => Just(0u8), 1 => 0u8..9],
        (proptest::bool::weighted(0.2), prop_oneof![4 => Just(0u8), 1 => 1u8..5], proptest::bool::weighted(0.2), proptest::bool::weighted(0.12)),
    )
        .prop_map(|(form, join, lead, trail, pre, post, nl_before, nl_after, star, indent, (doc, container, glue, interp))| Place { form, join, lead, trail, pre, post, nl_before, nl_after, star, indent, doc, container, glue, interp })
        .boxed()
}

/// Simple, well-behaved start tags (names and plain values) — the wild ones belong to C05.
pub fn simple_tag_strategy() -> BoxedStrategy<StartTag> {
    let name = prop_oneof![Just("name"), Just("data-x"), Just("k_1"), Just("note"), Just("имя")];
    // (one value in five holds a look-alike of a comment marker of some language: only the LEADING marker of a
    // comment is a marker)
    let value = prop_oneof![
        4 => proptest::string::string_regex("[a-z0-9 ._:/é-]{0,10}").unwrap(),
        1 => prop_oneof![Just("a--b -- c"), Just("http://x//y"), Just("#c # d"), Just("x;y ; z"), Just("-- DROP"), Just("// see"), Just("%% rem")].prop_map(String::from),
    ];
    let attr = (name, value, 0u8..4, prop_oneof![3 => Just(" "), 3 => Just("  "), 3 => Just("\t"), 3 => Just("\n"), 1 => Just("\n\n")]).prop_map(|(n, v, kind, ws)| Attr {
        name: n.to_string(),
        val: match kind {
            0 => Val::None,
            1 => Val::Unquoted(v.chars().filter(|c| c.is_alphanumeric() || *c == '-' || *c == '_').collect::<String>()).nonempty_or_none(),
            2 => Val::Single(v),
            _ => Val::Double(v),
        },
        ws_before: ws.to_string(),
        ws_eq_l: String::new(),
        ws_eq_r: String::new(),
    });
    (proptest::collection::vec(attr, 0..4), prop_oneof![4 => Just(""), 1 => Just(" ")]).prop_map(|(attrs, ws_end)| StartTag { attrs, ws_end: ws_end.to_string() }).boxed()
}

trait NonEmptyOrNone {
    fn nonempty_or_none(self) -> Val;
}
impl NonEmptyOrNone for Val {
    fn nonempty_or_none(self) -> Val {
        match &self {
            Val::Unquoted(v) if v.is_empty() => Val::None,
            _ => self,
        }
    }
}

pub fn events_strategy(tag: BoxedStrategy<StartTag>, max_len: usize) -> BoxedStrategy<Vec<Ev>> {
    let ev = prop_oneof![
        3 => (tag, place_strategy()).prop_map(|(tag, place)| Ev::Open { tag, place }),
        3 => (any::<u8>(), place_strategy()).prop_map(|(spelling, place)| Ev::Close { spelling: if spelling < 160 { 0 } else { spelling }, place }),
        3 => any::<u16>().prop_map(Ev::Code),
        1 => (any::<u8>(), any::<u8>(), 0u8..6).prop_map(|(form, text, indent)| Ev::Noise { form, text, indent }),
        1 => (any::<u16>(), any::<u8>()).prop_map(|(tpl, tag)| Ev::Decoy { tpl, tag }),
        1 => Just(Ev::Blank),
    ];
    proptest::collection::vec(ev, 1..max_len).boxed()
}

/// Wild start tags for the round trip (C05): names over ASCII/Unicode letters, digits, `-`, `_`; every value
/// kind; quoted values over printable characters minus the enclosing quote; duplicates; arbitrary whitespace.
pub fn wild_tag_strategy() -> BoxedStrategy<StartTag> {
    let name = prop_oneof![
        3 => proptest::string::string_regex("[a-zA-Z0-9éж名_-]{1,8}").unwrap(),
        1 => prop_oneof![Just("name".to_string()), Just("a".to_string()), Just("keep-sorted".to_string())],
    ];
    let ws1 = prop_oneof![5 => Just(" ".to_string()), 1 => Just("  ".to_string()), 1 => Just("\t".to_string()), 1 => Just("\n".to_string()), 1 => Just(" \n  ".to_string()), 1 => Just("\n\n".to_string())];
    let ws0 = prop_oneof![6 => Just(String::new()), 1 => Just(" ".to_string()), 1 => Just("\t ".to_string()), 1 => Just("\n".to_string()), 1 => Just("\n\n".to_string())];
    let quoted = proptest::string::string_regex("[ -~éж名😀]{0,14}").unwrap();
    let special = prop_oneof![Just("a>b"), Just("<x>"), Just("k=v"), Just("it's"), Just("say \"hi\""), Just("</block>"), Just("<block name=\"inner\">"), Just(" > "), Just("")];
    let attr = (name, 0u8..5, quoted, special, proptest::string::string_regex("[a-zA-Z0-9éж_-]{1,6}").unwrap(), ws1, ws0.clone(), ws0.clone()).prop_map(|(name, kind, q, sp, uq, ws_before, ws_eq_l, ws_eq_r)| {
        let val = match kind {
            0 => Val::None,
            1 => Val::Unquoted(uq),
            2 => Val::Single(q.replace('\'', "")),
            3 => Val::Double(q.replace('"', "")),
            _ => {
                if sp.contains('"') { Val::Single(sp.to_string()) } else { Val::Double(sp.to_string()) }
            }
        };
        Attr { name, val, ws_before, ws_eq_l, ws_eq_r }
    });
    (proptest::collection::vec(attr, 0..7), ws0).prop_map(|(attrs, ws_end)| StartTag { attrs, ws_end }).boxed()
}
