//! In-process path: the same pipeline as src/main.rs, driven through the crate's public API only
//! (volume multiplier; every failure found here is re-confirmed on the CLI before it is reported).
use blockwatch::blocks::{FileSystem, PathChecker, parse_blocks};
use blockwatch::diff_parser::line_changes_from_diff;
use blockwatch::language_parsers::language_parsers;
use blockwatch::validators::{DETECTOR_FACTORIES, ValidationContext, detect_validators, run};
use std::collections::{BTreeMap, HashMap, HashSet};
use std::path::{Path, PathBuf};
use std::sync::Arc;

pub struct MemFs {
    pub files: BTreeMap<String, String>,
}

impl FileSystem for MemFs {
    fn read_to_string(&self, path: &Path) -> anyhow::Result<String> {
        self.files.get(&path.display().to_string()).cloned().ok_or_else(|| anyhow::anyhow!("Failed to read file \"{}\"", path.display()))
    }
    fn walk(&self) -> impl Iterator<Item = anyhow::Result<PathBuf>> {
        self.files.keys().map(|p| Ok(PathBuf::from(p)))
    }
}

pub struct AllowAll;
impl PathChecker for AllowAll {
    fn should_allow(&self, _p: &Path) -> bool {
        true
    }
    fn should_ignore(&self, _p: &Path) -> bool {
        false
    }
}

#[derive(Debug)]
pub enum Outcome {
    /// listing JSON (file -> blocks) and, when validated, diagnostics JSON
    Ok { listing: serde_json::Value, diagnostics: Option<serde_json::Value> },
    Err(String),
    Panic(String),
}

fn panic_text(p: Box<dyn std::any::Any + Send>) -> String {
    p.downcast_ref::<String>().cloned().or_else(|| p.downcast_ref::<&str>().map(|s| s.to_string())).unwrap_or_else(|| "panic".into())
}

/// Parses (and optionally validates with the sync validators) a set of files, like a scan of all of them,
/// or like a diff-mode run when `diff` is given.
pub fn pipeline(files: &[(String, String)], diff: Option<&str>, validate: bool) -> Outcome {
    let fs = MemFs { files: files.iter().cloned().collect() };
    let r = std::panic::catch_unwind(std::panic::AssertUnwindSafe(|| -> anyhow::Result<(serde_json::Value, Option<serde_json::Value>)> {
        let parsers = language_parsers()?;
        let changes = match diff {
            Some(d) => line_changes_from_diff(d)?,
            None => HashMap::new(),
        };
        let blocks = parse_blocks(changes, diff.is_none(), &fs, &AllowAll, parsers, HashMap::new())?;
        let ctx = ValidationContext::new(blocks);
        let listing = serde_json::to_value(ctx.to_serializable_report())?;
        if !validate {
            return Ok((listing, None));
        }
        let disabled: HashSet<&str> = HashSet::from(["check-ai", "check-lua"]);
        let (s, a) = detect_validators(&ctx, DETECTOR_FACTORIES, &disabled, &HashSet::new())?;
        let violations = run(Arc::new(ctx), s, a)?;
        let mut d = serde_json::Map::new();
        for (path, vs) in violations {
            let list: Vec<serde_json::Value> = vs.iter().map(|v| serde_json::to_value(v.as_simple_diagnostic()).unwrap()).collect();
            d.insert(path.display().to_string(), serde_json::Value::Array(list));
        }
        Ok((listing, Some(serde_json::Value::Object(d))))
    }));
    match r {
        Ok(Ok((listing, diagnostics))) => Outcome::Ok { listing, diagnostics },
        Ok(Err(e)) => Outcome::Err(format!("{e:#}")),
        Err(p) => Outcome::Panic(panic_text(p)),
    }
}

/// Silences the default panic hook for panics raised inside blockwatch code while a scope is active
/// (the harness's own panics keep their message).
pub fn quiet_panics() {
    let prev = std::panic::take_hook();
    std::panic::set_hook(Box::new(move |info| {
        let loc = info.location().map(|l| l.file().to_string()).unwrap_or_default();
        if loc.contains("harness/src") || loc.contains("bwv") {
            prev(info);
        }
    }));
}
