#![no_main]
use libfuzzer_sys::fuzz_target;

// C05: bytes -> attribute ASTs in every spelling -> printed into comments -> in-process listing must give them back.
fuzz_target!(|data: &[u8]| {
    let case = bwv::fuzzdec::decode_src_case(data, true);
    if let Err(e) = bwv::fuzzdec::check_src_inproc(&case) {
        panic!("C05 oracle: {e}");
    }
});
