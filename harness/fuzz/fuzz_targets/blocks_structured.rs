#![no_main]
use libfuzzer_sys::fuzz_target;

// C03: bytes -> builder events (simple tags) -> source + ground truth -> in-process listing must agree.
fuzz_target!(|data: &[u8]| {
    let case = bwv::fuzzdec::decode_src_case(data, false);
    if let Err(e) = bwv::fuzzdec::check_src_inproc(&case) {
        panic!("C03 oracle: {e}");
    }
});
