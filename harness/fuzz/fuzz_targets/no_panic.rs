#![no_main]
use libfuzzer_sys::fuzz_target;

// Any UTF-8 content under any supported file name: parse + sync validators must not panic.
fuzz_target!(|data: &[u8]| {
    let (file, text) = bwv::fuzzdec::no_panic_input(data);
    if let bwv::inproc::Outcome::Panic(m) = bwv::inproc::pipeline(&[(file.clone(), text.clone())], None, true) {
        panic!("blockwatch panicked on {file}: {m}\n{text:?}");
    }
});
