#!/bin/sh
# tools/seed_eval.sh <prop> <round-letter> [extra check ids...]   e.g. tools/seed_eval.sh C01 c C20
# Copies a sub-agent's outputs from /tmp/seed_<prop><round>_out into seeded/<prop>-<round>/, verifies patch + suite + demo
# and runs the named checks (default: the property's own) against the changed binary.
set -u
HERE=$(cd "$(dirname "$0")/.." && pwd)
p=$1; r=$2; shift 2
src=/tmp/seed_${p}${r}_out
dst=$HERE/seeded/$p-$r
[ -f "$src/patch.diff" ] || { echo "no $src/patch.diff"; exit 2; }
mkdir -p "$dst" && cp "$src/patch.diff" "$src/demo.sh" "$src/notes.md" "$dst/" 2>/dev/null
(cd /repo && cargo build --offline --quiet --bin blockwatch --target-dir "$HERE/target/repo")
MUT_TESTS=1 MUT_DEMO="$dst/demo.sh" "$HERE/tools/mutant.sh" --patch "$dst/patch.diff" "$p" "$@" 2>&1 | cut -c1-260
head -c 600 "$dst/notes.md"; echo
