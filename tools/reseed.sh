#!/bin/sh
# tools/reseed.sh <ID> [<ID>...] : re-runs every kept seed of the named properties against that property's quick check
# (scratch copy under $BWMUT, default /tmp/bwmut2) and prints one line per seed. Sensitivity regression, not a registered check.
HERE=$(cd "$(dirname "$0")/.." && pwd)
export BWMUT=${BWMUT:-/tmp/bwmut2}
for p in "$@"; do
  for d in "$HERE"/seeded/$p-*; do
    [ -f "$d/patch.diff" ] || continue
    "$HERE/tools/mutant.sh" --patch "$d/patch.diff" "$p" 2>&1 | grep "MUTANT" | cut -c1-200
  done
done
