#!/bin/sh
# tools/seed_done.sh <prop> <round> "<needs>" "<caught_by>"  — writes meta.json and removes the scratch worktree
HERE=$(cd "$(dirname "$0")/.." && pwd)
p=$1; r=$2
python3 - "$HERE/seeded/$p-$r/meta.json" "$p" "$3" "$4" <<'PY'
import json,sys
path,prop,needs,caught=sys.argv[1:5]
json.dump({"property":prop,"needs":needs,"caught_by":[c.strip() for c in caught.split(';')],
 "origin":"independent sub-agent given only the property text, a scratch worktree and (from round 2 on) the list of ideas already used",
 "verified":"patch applies to /repo HEAD; `cargo test --workspace --offline` passes unedited with the patch (worktree given an empty .hg directory); demo.sh exits 0 with the unchanged binary and non-zero with the changed one; the checks named in caught_by exit 1 with VIOLATION lines against the changed code (tools/mutant.sh --patch, or git apply on /repo for in-process parts)"},open(path,'w'),indent=1)
PY
git -C /repo worktree remove --force /tmp/seed_${p}${r} 2>/dev/null; rm -rf /tmp/seed_${p}${r}_target /tmp/seed_${p}${r}_out; git -C /repo worktree prune
