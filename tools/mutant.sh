#!/bin/sh
# Sensitivity tool (not part of any registered check): applies one mutation to a scratch worktree of /repo
# under /tmp, builds the CLI there and runs the named checks against that binary.
#   tools/mutant.sh <name> <file> <perl-substitution> <ID> [<ID>...]
#   tools/mutant.sh --patch <patch.diff> <ID> [<ID>...]
# Set MUT_TESTS=1 to also run the repository's own test suite on the mutant (must stay green to be "realistic").
set -u
HERE=$(cd "$(dirname "$0")/.." && pwd)
B=${BWMUT:-/tmp/bwmut}
WT=$B/wt
TG=$B/target
mkdir -p $B
if [ ! -d "$WT" ]; then git -C /repo worktree add --detach "$WT" HEAD >/dev/null 2>&1 || exit 2; fi
git -C "$WT" checkout -q -- . && git -C "$WT" clean -fdq && git -C "$WT" checkout -q --detach "$(git -C /repo rev-parse HEAD)" || { echo "cannot reset scratch worktree"; exit 2; }
if [ "$1" = "--patch" ]; then
  name=$(basename "$(dirname "$2")"); git -C "$WT" apply "$2" || { echo "MUTANT $name: patch does not apply"; exit 2; }; shift 2
else
  name=$1; file=$2; expr=$3; shift 3
  before=$(md5sum "$WT/$file"); perl -0pi -e "$expr" "$WT/$file"; after=$(md5sum "$WT/$file")
  [ "$before" = "$after" ] && { echo "MUTANT $name: substitution did not change $file"; exit 2; }
fi
if ! (cd "$WT" && CARGO_NET_OFFLINE=true cargo build --offline --quiet --bin blockwatch --target-dir "$TG") >$B/build.log 2>&1; then
  echo "MUTANT $name: does not compile"; tail -5 $B/build.log; exit 2
fi
if [ "${MUT_TESTS:-0}" = 1 ]; then
  mkdir -p "$WT/.hg"   # the integration tests look for a .git/.hg *directory*; a worktree has a .git file
  if (cd "$WT" && CARGO_NET_OFFLINE=true cargo test --offline --quiet --workspace --target-dir "$TG") >$B/test.log 2>&1; then echo "MUTANT $name: repo tests PASS (realistic)"; else echo "MUTANT $name: repo tests FAIL (killed by the suite)"; grep -E "^test .* FAILED|failed" $B/test.log | head -5; fi
fi
rsync -a --delete "$HERE/known_findings.txt" $B/verif/ 2>/dev/null; for d in regress known; do [ -d "$HERE/$d" ] && rsync -a --delete "$HERE/$d" $B/verif/; done
rmdir "$WT/.hg" 2>/dev/null
if [ -n "${MUT_DEMO:-}" ]; then
  sh "$MUT_DEMO" "$HERE/target/repo/debug/blockwatch" >$B/demo_orig.log 2>&1; d0=$?
  sh "$MUT_DEMO" "$TG/debug/blockwatch" >$B/demo_mut.log 2>&1; d1=$?
  echo "MUTANT $name: demo with the unchanged binary exit=$d0, with the changed binary exit=$d1"
fi
for id in "$@"; do
  out=$(BWV_VERIF_DIR=$B/verif BWV_BIN="$TG/debug/blockwatch" BWV_SCRATCH=/dev/shm/bwv-mut-$(basename $B) "$HERE/target/debug/bwv" "$id" quick 2>&1)
  code=$?
  echo "MUTANT $name: $id exit=$code $(echo "$out" | grep -c '^VIOLATION') violation line(s); $(echo "$out" | tail -1)"
  [ "${MUT_VERBOSE:-0}" = 1 ] && echo "$out" | grep -A6 -- '--- violation' | head -30
done
exit 0
