#!/usr/bin/env python3
"""Regenerates /verif/MANIFEST.json. CLAIMED lists the properties that have a working check."""
import json, os
HERE = os.path.dirname(os.path.dirname(os.path.abspath(__file__)))

P = {
 "C01": ("generated edit scripts -> real git diff -> CLI; independent diff reader + affects reference model", "3.C01"),
 "C02": ("generated per-block edit classes + position sweeps -> real git diff; diff-run vs full-scan differential", "3.C02"),
 "C03": ("source files built from a per-language grammar with ground truth by construction; listing/content round trip; libFuzzer structured target in thorough", "3.C03"),
 "C04": ("token-soup and mutation fuzzing of all suffixes (in-process + CLI), libFuzzer no-panic target in thorough", "3.C04"),
 "C05": ("attribute AST print/parse round trip with look-alike injection; libFuzzer target in thorough", "3.C05"),
 "C06": ("exhaustive small-scope enumeration + random long blocks against an independent reference model", "3.C06"),
 "C07": ("exhaustive small-scope enumeration + random long blocks against an independent reference model", "3.C07"),
 "C08": ("exhaustive small-scope enumeration + random long blocks against hand-written predicates", "3.C08"),
 "C09": ("full grid enumeration (op x N x count x blank placement x layout) against a reference model", "3.C09"),
 "C10": ("generated violating blocks in every layout; reported range sliced out of the file bytes and compared with the constructed key/tag", "3.C10"),
 "C11": ("generated mixes of rules/severities; multiset comparison of the report with the models; exit status rule", "3.C11"),
 "C12": ("every single-tag damage of generated well-nested files; scan/list/diff modes; healthy control", "3.C12"),
 "C13": ("enumerated malformation table judged by a reference grammar x placement; control run without the malformed attribute", "3.C13"),
 "C14": ("all 128 subsets for -d and -e as metamorphic filters of the unrestricted run; fake endpoint request counting", "3.C14"),
 "C15": ("generated directory trees, globs, ignore globs, git diffs and cwd; reference scope set with tripwire files", "3.C15"),
 "C16": ("enumerated file-name shapes x suffix table x -E mappings against a reference resolver; metamorphic listing equality", "3.C16"),
 "C17": ("reachability enumeration of the Lua global graph from inside the script + generated escape programs per mode", "3.C17"),
 "C18": ("generated scripted blocks, failing subsets, busy loops, worker counts; payload echo compared with construction", "3.C18"),
 "C19": ("generated AI blocks, reply plans and single-fault plans against a recording fake endpoint", "3.C19"),
 "C20": ("run matrix (repetitions, cores, workers, creation order, diff order, cwd) over generated cases; outputs compared as multisets", "3.C20"),
}
CLAIMED = json.load(open(os.path.join(HERE, "tools", "claimed.json")))

checks = []
for pid in sorted(P):
    if pid not in CLAIMED: continue
    tech, ref = P[pid]
    c = CLAIMED[pid]
    checks.append({
        "property_id": pid,
        "quick_cmd": f"./run {pid} quick",
        "thorough_cmd": f"./run {pid} thorough",
        "evidence_file": f"/verif/evidence/{pid}.json",
        "replay_cmd_template": f"./run {pid} --replay {{path}}",
        "engine": "bwv",
        "level_claimed": {"category": "exploration", "text": c["text"], "design_ref": f"DESIGN.md section {ref}"},
        "level_note": c["note"],
        "technique": "property-based testing: " + tech,
    })
na = [{"property_id": pid, "reason": "check not built yet in this round (planned, see DESIGN.md section 5b)"} for pid in sorted(P) if pid not in CLAIMED]
m = {
 "version": 1,
 "setup_cmd": "./setup.sh",
 "hooks": {
   "guard": "blockwatch_verif (rustc --cfg; no hook was needed: every property is observed through the CLI or the crate's public API)",
   "enable": "none needed; checks build /repo unmodified with `cargo build --offline`",
   "baseline_off_cmd": "cd /repo && cargo test --workspace --no-fail-fast --offline",
   "source_commits": [],
   "add_only": True,
 },
 "engines": [
   {"name": "bwv", "path": "/verif/harness", "serves_properties": sorted(CLAIMED), "kind_free_text": "Rust harness: proptest TestRunner per worker (fixed seeds from VERIF_SEED), smallest-first enumerators, real blockwatch binary + real git in /dev/shm sandboxes, reference models, replay files"},
   {"name": "fuzz", "path": "/verif/harness/fuzz", "serves_properties": ["C03", "C04", "C05"], "kind_free_text": "cargo-fuzz/libFuzzer targets with the semantic oracle inside the target (thorough tier)"},
 ],
 "checks": checks,
 "not_applicable": na,
 "notes": "Exit 0 = held on everything explored (KNOWN-FINDING lines possible), 1 = VIOLATION line(s), 2 = inconclusive (build failure, watchdog, harness discrepancy). Known findings: /verif/known_findings.txt.",
}
if not na: del m["not_applicable"]
json.dump(m, open(os.path.join(HERE, "MANIFEST.json"), "w"), indent=1)
print("claimed", len(checks), "not_applicable", len(na))
