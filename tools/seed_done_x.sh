#!/bin/sh
# xdone.sh <dir-name e.g. C02-x1> <Xk> <prop> "<needs>" "<caught_by>"
python3 - "/verif/seeded/$1/meta.json" "$3" "$4" "$5" <<'PY'
import json,sys
path,prop,needs,caught=sys.argv[1:5]
json.dump({"property":prop,"needs":needs,"caught_by":[c.strip() for c in caught.split(';')],
 "origin":"independent sub-agent given the full list of property texts and a scratch worktree, free to choose the property to break (round 4, free choice)",
 "verified":"patch applies to /repo HEAD; `cargo test --workspace --offline` passes unedited with the patch (worktree given an empty .hg directory); demo.sh exits 0 with the unchanged binary and non-zero with the changed one; the checks named in caught_by exit 1 with VIOLATION lines against the changed code (tools/mutant.sh --patch)"},open(path,'w'),indent=1)
PY
git -C /repo worktree remove --force /tmp/seed_$2 2>/dev/null; rm -rf /tmp/seed_$2_target /tmp/seed_$2_out; git -C /repo worktree prune
