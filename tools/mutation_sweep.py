#!/usr/bin/env python3
"""Sensitivity sweep (not a registered check): one-token mutants of /repo's non-test source, each
 1. applied to a scratch worktree (/tmp/bwsweep/wt), compiled,
 2. run against the repository's own suite (mutants the suite kills are set aside),
 3. for survivors: the quick checks mapped to the mutated file run against the mutated CLI binary.
Usage: tools/mutation_sweep.py [max_mutants] [seed]    -> writes /verif/sweep/report_seed<seed>.json and prints a summary."""
import json, os, random, re, subprocess, sys, time

HERE = os.path.dirname(os.path.dirname(os.path.abspath(__file__)))
WT, TG, OUT = "/tmp/bwsweep/wt", "/tmp/bwsweep/target", os.path.join(HERE, "sweep")
MAXM = int(sys.argv[1]) if len(sys.argv) > 1 else 100
SEED = int(sys.argv[2]) if len(sys.argv) > 2 else 1

CHECKS = {
    "src/diff_parser.rs": ["C01", "C02"],
    "src/blocks.rs": ["C02", "C01", "C16", "C15"],
    "src/block_parser.rs": ["C03", "C05", "C12", "C10"],
    "src/tag_parser.rs": ["C05", "C03", "C12"],
    "src/language_parsers/mod.rs": ["C03", "C12", "C10"],
    "src/language_parsers/markdown.rs": ["C03", "C12", "C10"],
    "src/validators/keep_sorted.rs": ["C06", "C10", "C13"],
    "src/validators/keep_unique.rs": ["C07", "C10", "C13"],
    "src/validators/line_pattern.rs": ["C08", "C10", "C13"],
    "src/validators/line_count.rs": ["C09", "C13"],
    "src/validators/affects.rs": ["C01", "C13"],
    "src/validators/check_lua.rs": ["C18", "C17", "C13"],
    "src/validators/check_ai.rs": ["C19", "C13"],
    "src/validators/mod.rs": ["C11", "C14", "C20"],
    "src/flags.rs": ["C14", "C16", "C15"],
    "src/main.rs": ["C11", "C15", "C02"],
}
OPS = [
    (r" < ", " <= "), (r" <= ", " < "), (r" > ", " >= "), (r" >= ", " > "), (r" == ", " != "), (r" != ", " == "),
    (r"\+ 1\b", "+ 0"), (r"\+ 1\b", "+ 2"), (r"- 1\b", "- 0"),
    (r" && ", " || "), (r" \|\| ", " && "),
    (r"\.trim\(\)", ".trim_start()"), (r"\.trim\(\)", ".trim_end()"),
    (r"\bif !", "if "), (r"\btrue\b", "false"), (r"\bfalse\b", "true"),
    (r"^\s*break;\s*$", ""), (r"^\s*continue;\s*$", ""),
    (r"Ordering::Less", "Ordering::Greater"), (r"Ordering::Greater", "Ordering::Less"),
    (r"\.rev\(\)", ""), (r"\.is_some_and\(", ".is_none_or("),
]


def sh(cmd, cwd=None, timeout=3600, env=None):
    e = dict(os.environ)
    e["CARGO_NET_OFFLINE"] = "true"
    if env:
        e.update(env)
    p = subprocess.run(cmd, shell=True, cwd=cwd, env=e, stdout=subprocess.PIPE, stderr=subprocess.STDOUT, timeout=timeout)
    return p.returncode, p.stdout.decode("utf-8", "replace")


def candidates():
    out = []
    for f in CHECKS:
        src = open(os.path.join("/repo", f)).read().split("\n")
        for i, line in enumerate(src):
            if "#[cfg(test)]" in line:
                break
            s = line.strip()
            if s.startswith("//") or s.startswith("#[") or not s:
                continue
            for k, (pat, rep) in enumerate(OPS):
                for m in re.finditer(pat, line):
                    new = line[: m.start()] + rep + line[m.end():]
                    if new != line:
                        out.append((f, i, k, line, new))
    return out


def main():
    os.makedirs("/tmp/bwsweep", exist_ok=True)
    os.makedirs(OUT, exist_ok=True)
    if not os.path.isdir(WT):
        sh(f"git -C /repo worktree add --detach {WT} HEAD")
    head = sh("git -C /repo rev-parse HEAD")[1].strip()
    cands = candidates()
    random.Random(SEED).shuffle(cands)
    # spread over files: round-robin by file
    byfile = {}
    for c in cands:
        byfile.setdefault(c[0], []).append(c)
    picked = []
    while len(picked) < MAXM and any(byfile.values()):
        for f in list(byfile):
            if byfile[f] and len(picked) < MAXM:
                picked.append(byfile[f].pop())
    sh(f"rsync -a --delete {HERE}/known_findings.txt {HERE}/known /tmp/bwsweep/verif/ 2>/dev/null; mkdir -p /tmp/bwsweep/verif")
    sh(f"mkdir -p /tmp/bwsweep/verif && cp {HERE}/known_findings.txt /tmp/bwsweep/verif/ && rsync -a --delete {HERE}/known /tmp/bwsweep/verif/")
    results = []
    t0 = time.time()
    for n, (f, i, k, old, new) in enumerate(picked):
        sh(f"git -C {WT} checkout -q -- . && git -C {WT} clean -fdq && git -C {WT} checkout -q --detach {head}")
        p = os.path.join(WT, f)
        lines = open(p).read().split("\n")
        assert lines[i] == old
        lines[i] = new
        open(p, "w").write("\n".join(lines))
        rec = {"file": f, "line": i + 1, "old": old.strip(), "new": new.strip()}
        rc, out = sh(f"cargo build --offline --quiet --bin blockwatch --target-dir {TG}", cwd=WT)
        if rc != 0:
            rec["status"] = "does-not-compile"
            results.append(rec)
            continue
        sh(f"mkdir -p {WT}/.hg")
        rc, out = sh(f"cargo test --offline --quiet --workspace --target-dir {TG}", cwd=WT, timeout=1200)
        sh(f"rmdir {WT}/.hg")
        if rc != 0:
            rec["status"] = "killed-by-repo-suite"
            results.append(rec)
            print(f"[{n+1}/{len(picked)}] {f}:{i+1} killed by the repo suite", flush=True)
            continue
        caught = []
        for cid in CHECKS[f]:
            rc, out = sh(f"{HERE}/target/debug/bwv {cid} quick", env={"BWV_VERIF_DIR": "/tmp/bwsweep/verif", "BWV_BIN": f"{TG}/debug/blockwatch", "BWV_SCRATCH": "/dev/shm/bwv-sweep", "BWV_SHRINK": "0"}, timeout=1800)
            if rc == 1 and "VIOLATION" in out:
                caught.append(cid)
                break
        rec["status"] = "caught" if caught else "SURVIVED"
        rec["caught_by"] = caught
        rec["checks_run"] = CHECKS[f]
        results.append(rec)
        print(f"[{n+1}/{len(picked)}] {f}:{i+1} `{old.strip()[:60]}` -> `{new.strip()[:60]}`: {rec['status']} {caught}", flush=True)
        json.dump({"head": head, "results": results, "elapsed_s": time.time() - t0}, open(os.path.join(OUT, f"report_seed{SEED}.json"), "w"), indent=1)
    summary = {}
    for r in results:
        summary[r["status"]] = summary.get(r["status"], 0) + 1
    print("SUMMARY", summary)
    json.dump({"head": head, "summary": summary, "results": results, "elapsed_s": time.time() - t0}, open(os.path.join(OUT, f"report_seed{SEED}.json"), "w"), indent=1)
    sh(f"git -C /repo worktree remove --force {WT}")


if __name__ == "__main__":
    main()
