#!/bin/sh
# MANIFEST.setup_cmd: builds the blockwatch binary from /repo's working tree and the harness, offline.
set -eu
HERE=$(cd "$(dirname "$0")" && pwd)
REPO=${BWV_REPO:-/repo}
export CARGO_NET_OFFLINE=true
mkdir -p "$HERE/target" "$HERE/evidence" "$HERE/replays"
(cd "$REPO" && cargo build --offline --bin blockwatch --target-dir "$HERE/target/repo")
(cd "$HERE/harness" && cargo build --offline --target-dir "$HERE/target")
echo "setup ok"
